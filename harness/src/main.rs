mod engine;
mod props;
mod zoo;

use engine::{Ctx, Tier};

const VERIF: &str = "/verif";

fn main() {
    let args: Vec<String> = std::env::args().collect();
    if args.len() < 3 {
        eprintln!("usage: fvc <Cxx> <quick|thorough> [--replay <file>]");
        std::process::exit(2);
    }
    let id = args[1].clone();
    let tier = match args[2].as_str() {
        "quick" => Tier::Quick,
        "thorough" => Tier::Thorough,
        _ => {
            eprintln!("tier must be quick or thorough");
            std::process::exit(2);
        }
    };
    let seed: i64 = std::env::var("VERIF_SEED").ok().and_then(|s| s.parse().ok()).unwrap_or(0);
    let mut replay_case = None;
    if let Some(p) = args.iter().position(|a| a == "--replay") {
        let path = args.get(p + 1).expect("--replay needs a file");
        let v: serde_json::Value = serde_json::from_str(&std::fs::read_to_string(path).expect("read replay file")).expect("parse replay file");
        replay_case = Some(v["case_key"].as_str().expect("case_key").to_string());
    }
    // panics inside cases are caught and classified; keep stderr quiet
    if std::env::var("FVC_PANIC").is_err() {
        std::panic::set_hook(Box::new(|_| {}));
    }
    let Some((sid, f)) = props::lookup(&id) else {
        eprintln!("unknown property {id}");
        std::process::exit(2);
    };
    let replay = replay_case.is_some();
    let run_once = |rc: Option<String>| {
        // checks whose complete (thorough) lattice takes well under a minute enumerate it in the quick tier as well
        const FAST: [&str; 14] = ["C02", "C03", "C04", "C06", "C07", "C08", "C09", "C10", "C12", "C13", "C14", "C15", "C16", "C20"];
        let lattice = if tier == engine::Tier::Quick && FAST.contains(&sid) && std::env::var("FVC_SMALL_QUICK").is_err() { engine::Tier::Thorough } else { tier };
        let mut ctx = Ctx::new(sid, lattice, seed, rc);
        ctx.label = tier;
        if lattice != tier {
            ctx.extra("quick_enumerates_the_thorough_lattice", serde_json::json!(true));
        }
        f(&mut ctx);
        ctx
    };
    let ctx = run_once(replay_case.clone());
    if replay {
        // the same case must behave identically twice before any verdict is reported
        let ctx2 = run_once(replay_case);
        let a: Vec<String> = ctx.total.violations.iter().map(|v| format!("{}::{}", v.key, v.detail)).collect();
        let b: Vec<String> = ctx2.total.violations.iter().map(|v| format!("{}::{}", v.key, v.detail)).collect();
        if a != b || ctx.total.observations != ctx2.total.observations {
            println!("MACHINERY-ERROR: replay is not deterministic");
            std::process::exit(2);
        }
    }
    let code = engine::finish(ctx, VERIF);
    std::process::exit(code);
}
