//! C20 — Transport properties and the parameter estimator are consistent with the model
use crate::engine::{Ctx, Rec, Tier};
use crate::zoo;
use feos::estimator::{BinaryPhaseDiagram, BinaryVleChemicalPotential, BinaryVlePressure, DataSet, Diffusion, EquilibriumLiquidDensity, Estimator, LiquidDensity, Loss, Phase, ThermalConductivity, VaporPressure, Viscosity};
use feos::pcsaft::{DQVariants, PcSaft, PcSaftOptions, PcSaftParameters, PcSaftRecord};
use feos::saftvrqmie::{SaftVRQMie, SaftVRQMieParameters, SaftVRQMieRecord};
use feos::ResidualModel;
use feos_core::parameter::{Parameter, PureRecord};
use feos_core::{Components, Contributions, DensityInitialization, PhaseDiagram, PhaseEquilibrium, ReferenceSystem, Residual, State};
use ndarray::{arr1, Array1};
use quantity::*;
use serde_json::{json, Value};
use std::sync::Arc;
use typenum::P3;

type E = ResidualModel;

const KB: f64 = 1.380649e-23;
const NAV: f64 = 6.02214076e23;

fn omega11(t: f64) -> f64 {
    1.06036 * t.powf(-0.15610) + 0.19300 * (-0.47635 * t).exp() + 1.03587 * (-1.52996 * t).exp() + 1.76474 * (-3.89411 * t).exp()
}
fn omega22(t: f64) -> f64 {
    1.16145 * t.powf(-0.14874) + 0.52487 * (-0.77320 * t).exp() + 2.16178 * (-2.43787 * t).exp() - 6.435e-4 * t.powf(0.14874) * (18.0323 * t.powf(-0.76830) - 7.27371).sin()
}

#[derive(Clone)]
struct TCase {
    id: String,
    eos: Arc<E>,
    /// same record, built with non-default model options (pcsaft: DQ44 cross term)
    eos_opt: Option<Arc<E>>,
    /// binary with a second record, the first component being this one
    eos_bin: Option<Arc<E>>,
    m: f64,
    sigma: f64,
    eps: f64,
    mw: f64,
    visc: [f64; 4],
    diff: [f64; 5],
    thc: [f64; 4],
    vrq: bool,
    thorough: bool,
}

const DIFF: [f64; 5] = [-0.0489, -0.4712, 0.0535, 0.00121, 1.3e-5];
const THC: [f64; 4] = [-0.1334, 0.6629, 0.7153, 0.0192];
const VISC: [f64; 4] = [-0.4312, -1.8914, -0.3215, -0.0421];

fn arr<const N: usize>(v: &Value) -> [f64; N] {
    let mut a = [0.0; N];
    for (i, x) in v.as_array().unwrap().iter().enumerate() {
        a[i] = x.as_f64().unwrap();
    }
    a
}

fn transport_cases(tier: Tier) -> Vec<TCase> {
    let mut out = vec![];
    let recs: Vec<Value> = serde_json::from_str(&std::fs::read_to_string(zoo::pfile("pcsaft/loetgeringlin2018.json")).unwrap()).unwrap();
    let with = |v: &Value| -> Value {
        let mut v = v.clone();
        let mr = v["model_record"].as_object_mut().unwrap();
        mr.entry("diffusion").or_insert(json!(DIFF));
        mr.entry("thermal_conductivity").or_insert(json!(THC));
        mr.entry("viscosity").or_insert(json!(VISC));
        v
    };
    let step = tier.pick(12, 1);
    for (k, v) in recs.iter().enumerate() {
        if k % step != 0 {
            continue;
        }
        let v = with(v);
        let Ok(pr) = serde_json::from_value::<PureRecord<PcSaftRecord>>(v.clone()) else { continue };
        let Ok(p) = PcSaftParameters::new_pure(pr.clone()) else { continue };
        let p = Arc::new(p);
        let v2 = with(&recs[(k + 7) % recs.len()]);
        let pr2: PureRecord<PcSaftRecord> = serde_json::from_value(v2).unwrap();
        let bin = PcSaftParameters::new_binary(vec![pr.clone(), pr2], None).ok().map(|b| Arc::new(ResidualModel::PcSaft(PcSaft::new(Arc::new(b)))));
        let mr = &v["model_record"];
        let name = v["identifier"]["name"].as_str().unwrap_or("?").to_string();
        let opt = PcSaftOptions { dq_variant: DQVariants::DQ44, ..Default::default() };
        out.push(TCase {
            id: format!("pcsaft:{name}"),
            eos: Arc::new(ResidualModel::PcSaft(PcSaft::new(p.clone()))),
            eos_opt: Some(Arc::new(ResidualModel::PcSaft(PcSaft::with_options(p.clone(), opt)))),
            eos_bin: bin,
            m: mr["m"].as_f64().unwrap(),
            sigma: mr["sigma"].as_f64().unwrap(),
            eps: mr["epsilon_k"].as_f64().unwrap(),
            mw: v["molarweight"].as_f64().unwrap(),
            visc: arr(&mr["viscosity"]),
            diff: arr(&mr["diffusion"]),
            thc: arr(&mr["thermal_conductivity"]),
            vrq: false,
            thorough: tier == Tier::Thorough,
        });
    }
    // a record with both a dipole and a quadrupole, so that the model options change the residual entropy
    {
        let v = json!({"identifier": {"name": "dq-probe"}, "molarweight": 58.08, "model_record": {"m": 2.7447, "sigma": 3.2742, "epsilon_k": 232.99, "mu": 2.88, "q": 3.5, "viscosity": VISC, "diffusion": DIFF, "thermal_conductivity": THC}});
        let pr: PureRecord<PcSaftRecord> = serde_json::from_value(v.clone()).unwrap();
        let p = Arc::new(PcSaftParameters::new_pure(pr).unwrap());
        let opt = PcSaftOptions { dq_variant: DQVariants::DQ44, ..Default::default() };
        let mr = &v["model_record"];
        out.push(TCase {
            id: "pcsaft:dq-probe".into(),
            eos: Arc::new(ResidualModel::PcSaft(PcSaft::new(p.clone()))),
            eos_opt: Some(Arc::new(ResidualModel::PcSaft(PcSaft::with_options(p.clone(), opt)))),
            eos_bin: None,
            m: mr["m"].as_f64().unwrap(),
            sigma: mr["sigma"].as_f64().unwrap(),
            eps: mr["epsilon_k"].as_f64().unwrap(),
            mw: 58.08,
            visc: VISC,
            diff: DIFF,
            thc: THC,
            vrq: false,
            thorough: tier == Tier::Thorough,
        });
    }
    // SAFT-VRQ Mie
    for file in ["hammer2023", "aasen2019"] {
        let recs: Vec<Value> = serde_json::from_str(&std::fs::read_to_string(zoo::pfile(&format!("saftvrqmie/{file}.json"))).unwrap()).unwrap();
        for (k, v) in recs.iter().enumerate() {
            if tier == Tier::Quick && k > 0 {
                continue;
            }
            let v = with(v);
            let Ok(pr) = serde_json::from_value::<PureRecord<SaftVRQMieRecord>>(v.clone()) else { continue };
            let Ok(p) = SaftVRQMieParameters::new_pure(pr) else { continue };
            let mr = &v["model_record"];
            let name = v["identifier"]["name"].as_str().unwrap_or("?").to_string();
            out.push(TCase {
                id: format!("saftvrqmie:{file}:{name}"),
                eos: Arc::new(ResidualModel::SaftVRQMie(SaftVRQMie::new(Arc::new(p)))),
                eos_opt: None,
                eos_bin: None,
                m: mr["m"].as_f64().unwrap_or(1.0),
                sigma: mr["sigma"].as_f64().unwrap(),
                eps: mr["epsilon_k"].as_f64().unwrap(),
                mw: v["molarweight"].as_f64().unwrap(),
                visc: arr(&mr["viscosity"]),
                diff: arr(&mr["diffusion"]),
                thc: arr(&mr["thermal_conductivity"]),
                vrq: true,
                thorough: tier == Tier::Thorough,
            });
        }
    }
    out
}

fn rel(a: f64, b: f64) -> f64 {
    (a - b).abs() / a.abs().max(b.abs()).max(1e-300)
}

fn transport_case(c: &TCase, rec: &mut Rec) {
    let one = arr1(&[1.0]) * MOL;
    let tref = State::critical_point(&c.eos, None, None, Default::default()).map(|s| s.temperature.to_reduced()).unwrap_or(1.3 * c.eps * c.m.powf(0.3));
    let rmax = c.eos.max_density(Some(&one)).unwrap().to_reduced();
    let (tfs, efs): (Vec<f64>, Vec<f64>) = if c.thorough { (vec![0.5, 0.6, 0.7, 0.8, 0.9, 1.0, 1.1, 1.2, 1.5, 2.0, 3.0], vec![1e-6, 1e-4, 1e-2, 0.05, 0.1, 0.2, 0.3, 0.4, 0.5, 0.6, 0.7, 0.8, 0.85, 0.9]) } else { (vec![0.6, 0.8, 1.0, 1.2, 2.0], vec![1e-4, 0.05, 0.3, 0.6, 0.85]) };
    for &tf in &tfs {
        for &ef in &efs {
            let sub = format!("T={tf}|rho={ef}");
            let t = tref * tf;
            let models: Vec<(&str, &Arc<E>)> = std::iter::once(("default", &c.eos)).chain(c.eos_opt.iter().map(|e| ("options", e))).collect();
            for (mname, eos) in models {
                let sub = format!("{sub}|{mname}");
                let Ok(st) = State::new_nvt(eos, Temperature::from_reduced(t), Volume::from_reduced(1.0 / (rmax * ef)), &Moles::from_reduced(arr1(&[1.0]))) else {
                    rec.skip("state cannot be built");
                    continue;
                };
                let s = st.residual_molar_entropy().to_reduced();
                if !s.is_finite() {
                    rec.skip("non-finite residual entropy");
                    continue;
                }
                let ss = s / c.m;
                // the synthetic coefficients are only meaningful for liquid-like entropies; beyond that the exponentials over- or underflow
                if ss < -6.0 || ss > 0.5 {
                    rec.skip("reduced residual entropy outside [-6, 0.5] (outside the range of any entropy-scaling correlation)");
                    continue;
                }
                // viscosity
                let (eta, eta_ref, ln_eta) = (st.viscosity().unwrap(), st.viscosity_reference().unwrap(), st.ln_viscosity_reduced().unwrap());
                let eta_si = eta.convert_to(PASCAL * SECOND);
                let eta_ref_si = eta_ref.convert_to(PASCAL * SECOND);
                rec.check("viscosity=reference*exp(correlation)", &sub, rel(eta_si, eta_ref_si * ln_eta.exp()) / 1e-13, true, || format!("viscosity {eta_si:e} vs reference {eta_ref_si:e} * exp({ln_eta})"));
                let corr = c.visc[0] + c.visc[1] * ss + c.visc[2] * ss * ss + c.visc[3] * ss.powi(3);
                let cscale = c.visc[0].abs() + (c.visc[1] * ss).abs() + (c.visc[2] * ss * ss).abs() + (c.visc[3] * ss.powi(3)).abs();
                rec.check("viscosity_correlation(s_res)", &sub, (ln_eta - corr).abs() / (1e-12 * cscale.max(1.0)), true, || format!("ln_viscosity_reduced {ln_eta} vs polynomial of the state's s_res/m {corr} (s_res/m = {ss})"));
                rec.require("positive_finite", &format!("{sub}|viscosity"), eta_si.is_finite() && eta_si > 0.0, || format!("viscosity {eta_si:e}"));
                if !c.vrq {
                    let ce = 5.0 / 16.0 * (c.mw * 1e-3 / NAV * KB * t / std::f64::consts::PI).sqrt() / omega22(t / c.eps) / (c.sigma * 1e-10).powi(2);
                    rec.check("viscosity_reference=chapman_enskog", &sub, rel(eta_ref_si, ce) / 1e-10, true, || format!("viscosity_reference {eta_ref_si:e} Pa s vs Chapman-Enskog {ce:e} Pa s"));
                }
                // diffusion
                let (d, d_ref, ln_d) = (st.diffusion().unwrap(), st.diffusion_reference().unwrap(), st.ln_diffusion_reduced().unwrap());
                let d_si = d.convert_to(METER * METER / SECOND);
                let d_ref_si = d_ref.convert_to(METER * METER / SECOND);
                rec.check("diffusion=reference*exp(correlation)", &sub, rel(d_si, d_ref_si * ln_d.exp()) / 1e-13, true, || format!("diffusion {d_si:e} vs reference {d_ref_si:e} * exp({ln_d})"));
                let corr = c.diff[0] + c.diff[1] * ss - c.diff[2] * (1.0 - ss.exp()) * ss * ss - c.diff[3] * ss.powi(4) - c.diff[4] * ss.powi(8);
                let cscale = c.diff[0].abs() + (c.diff[1] * ss).abs() + (c.diff[2] * ss * ss).abs() + (c.diff[3] * ss.powi(4)).abs() + (c.diff[4] * ss.powi(8)).abs();
                rec.check("diffusion_correlation(s_res)", &sub, (ln_d - corr).abs() / (1e-12 * cscale.max(1.0)), true, || format!("ln_diffusion_reduced {ln_d} vs closed form of the state's s_res/m {corr}"));
                rec.require("positive_finite", &format!("{sub}|diffusion"), d_si.is_finite() && d_si > 0.0, || format!("diffusion {d_si:e}"));
                if !c.vrq {
                    let rho_si = st.density.convert_to(MOL / METER.powi::<P3>());
                    let dr = 3.0 / 8.0 / (c.sigma * 1e-10).powi(2) / omega11(t / c.eps) / (rho_si * NAV) * (t * KB * NAV / std::f64::consts::PI / (c.mw * 1e-3) / c.m).sqrt();
                    rec.check("diffusion_reference=chapman_enskog", &sub, rel(d_ref_si, dr) / 1e-10, true, || format!("diffusion_reference {d_ref_si:e} m2/s vs Chapman-Enskog {dr:e} m2/s"));
                }
                // thermal conductivity
                let (l, l_ref, ln_l) = (st.thermal_conductivity().unwrap(), st.thermal_conductivity_reference().unwrap(), st.ln_thermal_conductivity_reduced().unwrap());
                let l_si = l.convert_to(WATT / METER / KELVIN);
                let l_ref_si = l_ref.convert_to(WATT / METER / KELVIN);
                rec.check("thermal_conductivity=reference*exp(correlation)", &sub, rel(l_si, l_ref_si * ln_l.exp()) / 1e-13, true, || format!("thermal conductivity {l_si:e} vs reference {l_ref_si:e} * exp({ln_l})"));
                let corr = c.thc[0] + c.thc[1] * ss + c.thc[2] * (1.0 - ss.exp()) + c.thc[3] * ss * ss;
                let cscale = c.thc[0].abs() + (c.thc[1] * ss).abs() + c.thc[2].abs() + (c.thc[3] * ss * ss).abs();
                rec.check("thermal_conductivity_correlation(s_res)", &sub, (ln_l - corr).abs() / (1e-12 * cscale.max(1.0)), true, || format!("ln_thermal_conductivity_reduced {ln_l} vs closed form of the state's s_res/m {corr}"));
                let mut l_ref_positive = true;
                if !c.vrq {
                    // Hopp & Gross 2019, eq. 4: Chapman-Enskog part plus a dense contribution scaled with exp(2 s_res/m) of THIS state
                    let tr = t / c.eps;
                    let ce = 0.083235 * (t * c.m / c.mw).sqrt() / c.sigma.powi(2) / omega22(tr);
                    let ts = (-0.0167141 * tr / c.m + 0.0470581 * (tr / c.m).powi(2)) * (c.m * c.m * c.sigma.powi(3) * c.eps) * 1e-5;
                    let lr = ce + ts * (2.0 * ss).exp();
                    rec.check("thermal_conductivity_reference(s_res)", &sub, rel(l_ref_si, lr) / 1e-10, true, || format!("thermal_conductivity_reference {l_ref_si:e} W/m/K vs the closed form evaluated with the state's residual entropy {lr:e} W/m/K"));
                    // the published reference itself turns negative for long chains at low reduced temperature (T/eps/m < 0.355) and gas
                    // densities: positivity is only demanded where the closed form is positive
                    l_ref_positive = lr > 0.0;
                    if !l_ref_positive {
                        rec.count("thermal conductivity reference of the published correlation is negative (long chain, low T, gas density)");
                    }
                }
                rec.require("positive_finite", &format!("{sub}|thermal_conductivity"), l_si.is_finite() && (l_si > 0.0 || !l_ref_positive), || format!("thermal conductivity {l_si:e}"));
                if mname != "default" {
                    continue;
                }
                // same residual entropy at another temperature -> same reduced transport properties
                let t2 = 1.25 * t;
                let sres = |rho: f64| State::new_nvt(eos, Temperature::from_reduced(t2), Volume::from_reduced(1.0 / rho), &Moles::from_reduced(arr1(&[1.0]))).ok().map(|s| s.residual_molar_entropy().to_reduced());
                let (mut lo, mut hi) = (rmax * 1e-6, rmax * 0.95);
                if let (Some(slo), Some(shi)) = (sres(lo), sres(hi)) {
                    if (slo - s) * (shi - s) < 0.0 {
                        for _ in 0..200 {
                            let mid = 0.5 * (lo + hi);
                            match sres(mid) {
                                Some(sm) if (sm - s) * (slo - s) > 0.0 => lo = mid,
                                Some(_) => hi = mid,
                                None => break,
                            }
                        }
                        let rho2 = 0.5 * (lo + hi);
                        if let Ok(st2) = State::new_nvt(eos, Temperature::from_reduced(t2), Volume::from_reduced(1.0 / rho2), &Moles::from_reduced(arr1(&[1.0]))) {
                            let s2 = st2.residual_molar_entropy().to_reduced();
                            let ds = ((s2 - s) / c.m).abs();
                            let slope = c.visc[1].abs() + 2.0 * (c.visc[2] * ss).abs() + 3.0 * (c.visc[3] * ss * ss).abs();
                            let l2 = st2.ln_viscosity_reduced().unwrap();
                            rec.check("same_s_res_same_value", &format!("{sub}|viscosity"), (l2 - ln_eta).abs() / (2.0 * slope * ds + 1e-11 + 1e-13 * l2.abs()), true, || format!("ln_viscosity_reduced {ln_eta} at (T, rho) and {l2} at (1.25 T, rho') with the same s_res (difference {:e})", s2 - s));
                            let l2 = st2.ln_thermal_conductivity_reduced().unwrap();
                            let slope = c.thc[1].abs() + c.thc[2].abs() + 2.0 * (c.thc[3] * ss).abs();
                            rec.check("same_s_res_same_value", &format!("{sub}|thermal_conductivity"), (l2 - ln_l).abs() / (2.0 * slope * ds + 1e-11 + 1e-13 * l2.abs()), true, || format!("ln_thermal_conductivity_reduced {ln_l} vs {l2} at the same s_res"));
                            let l2 = st2.ln_diffusion_reduced().unwrap();
                            let slope = c.diff[1].abs() + 3.0 * (c.diff[2] * ss * ss).abs().max((c.diff[2] * ss).abs()) + 4.0 * (c.diff[3] * ss.powi(3)).abs() + 8.0 * (c.diff[4] * ss.powi(7)).abs();
                            rec.check("same_s_res_same_value", &format!("{sub}|diffusion"), (l2 - ln_d).abs() / (2.0 * slope * ds + 1e-11 + 1e-13 * l2.abs()), true, || format!("ln_diffusion_reduced {ln_d} vs {l2} at the same s_res"));
                        }
                    } else {
                        rec.count("same_s_res: no second state with this residual entropy at 1.25 T");
                    }
                }
                // mixture with a vanishing second component
                if let Some(bin) = &c.eos_bin {
                    let v = 1.0 / (rmax * ef);
                    let mut ds = vec![];
                    for eps in [1e-3, 1e-6, 1e-9] {
                        let Ok(sb) = State::new_nvt(bin, Temperature::from_reduced(t), Volume::from_reduced(v), &Moles::from_reduced(arr1(&[1.0 - eps, eps]))) else { continue };
                        match sb.viscosity() {
                            Ok(e) => ds.push((eps, rel(e.convert_to(PASCAL * SECOND), eta_si))),
                            Err(_) => rec.require("vanishing_second_component", &format!("{sub}|eps={eps}"), false, || "viscosity of the binary fails".into()),
                        }
                    }
                    if ds.len() == 3 {
                        // linear convergence: the deviation at eps is bounded by the first-order slope seen at 1e-3
                        let slope = (ds[0].1 / ds[0].0).max(1.0);
                        for (eps, d) in &ds[1..] {
                            rec.check("vanishing_second_component", &format!("{sub}|eps={eps}"), d / (3.0 * slope * eps + 1e-12), true, || format!("viscosity of the binary at x2 = {eps} deviates from the pure value by {d:e} (at x2 = 1e-3: {:e})", ds[0].1));
                        }
                    }
                    // diffusion and thermal conductivity are defined for pure substances only: an error, not a panic or a number
                    if let Ok(sb) = State::new_nvt(bin, Temperature::from_reduced(t), Volume::from_reduced(v), &Moles::from_reduced(arr1(&[0.5, 0.5]))) {
                        rec.require("mixture_diffusion_is_an_error", &sub, sb.diffusion().is_err() && sb.thermal_conductivity().is_err(), || "diffusion / thermal conductivity of a binary return a value".into());
                    }
                }
            }
        }
    }
}

// ---------------------------------------------------------------------------------------------------------------
// estimator

fn closed_form(loss: &Loss, r: f64) -> f64 {
    // sqrt(f^2 rho(r^2/f^2)), with rho evaluated without cancellation
    match *loss {
        Loss::Linear => r,
        Loss::SoftL1(f) => {
            let z = r * r / (f * f);
            (f * f * 2.0 * z / ((1.0 + z).sqrt() + 1.0)).sqrt()
        }
        Loss::Huber(f) => {
            let z = r * r / (f * f);
            (f * f * if z <= 1.0 { z } else { 2.0 * z.sqrt() - 1.0 }).sqrt()
        }
        Loss::Cauchy(f) => (f * f * (r * r / (f * f)).ln_1p()).sqrt(),
        Loss::Arctan(f) => (f * f * (r * r / (f * f)).atan()).sqrt(),
    }
}

fn loss_name(l: &Loss) -> String {
    match l {
        Loss::Linear => "linear".into(),
        Loss::SoftL1(f) => format!("softl1({f})"),
        Loss::Huber(f) => format!("huber({f})"),
        Loss::Cauchy(f) => format!("cauchy({f})"),
        Loss::Arctan(f) => format!("arctan({f})"),
    }
}

fn losses(fs: &[f64]) -> Vec<Loss> {
    let mut v = vec![Loss::Linear];
    for &f in fs {
        v.extend([Loss::SoftL1(f), Loss::Huber(f), Loss::Cauchy(f), Loss::Arctan(f)]);
    }
    v
}

/// tolerance for a value computed as sqrt(f^2 rho): relative 1e-12 plus the propagated rounding of rho (a few ulp of 1)
fn loss_tol(closed: f64, f: f64) -> f64 {
    1e-12 * closed.abs() + 1e-15 * f * f / closed.abs().max(1e-300)
}

fn loss_case(loss: &Loss, rec: &mut Rec) {
    let f = match *loss {
        Loss::Linear => 1.0,
        Loss::SoftL1(f) | Loss::Huber(f) | Loss::Cauchy(f) | Loss::Arctan(f) => f,
    };
    let mut rs = vec![0.0];
    for m in [1e-8, 1e-5, 1e-3, 0.03, 0.1, 0.5, 0.999, 1.0, 1.001, 2.0, 10.0, 1e3, 1e6] {
        for sc in [1.0, f] {
            rs.push(m * sc);
            rs.push(-m * sc);
        }
    }
    let mut a = Array1::from_vec(rs.clone());
    loss.apply(&mut a);
    for (r, v) in rs.iter().zip(a.iter()) {
        let c = closed_form(loss, *r);
        let ok = if c == 0.0 { *v == 0.0 } else { (v - c).abs() <= loss_tol(c, f) };
        rec.check("loss=closed_form", &format!("r={r:e}"), if ok { 0.0 } else { 2.0 }, true, || format!("{}.apply({r:e}) = {v:e}, closed form sqrt(f^2 rho(r^2/f^2)) = {c:e}", loss_name(loss)));
    }
}

struct DsCase {
    id: String,
    /// builds the data set from targets (None: use the reference prediction as target) and returns it with the reference prediction
    build: Box<dyn Fn(Option<&Array1<f64>>) -> Option<(Arc<dyn DataSet<E>>, Array1<f64>)> + Sync + Send>,
    eos: Arc<E>,
    quick: bool,
}

fn pure_model(name: &str) -> Arc<E> {
    let recs: Vec<Value> = serde_json::from_str(&std::fs::read_to_string(zoo::pfile("pcsaft/loetgeringlin2018.json")).unwrap()).unwrap();
    let mut v = recs.into_iter().find(|r| r["identifier"]["name"].as_str() == Some(name)).unwrap_or_else(|| panic!("record {name}"));
    let mr = v["model_record"].as_object_mut().unwrap();
    mr.entry("diffusion").or_insert(json!(DIFF));
    mr.entry("thermal_conductivity").or_insert(json!(THC));
    let pr: PureRecord<PcSaftRecord> = serde_json::from_value(v).unwrap();
    Arc::new(ResidualModel::PcSaft(PcSaft::new(Arc::new(PcSaftParameters::new_pure(pr).unwrap()))))
}

fn same(a: &Array1<f64>, b: &Array1<f64>, tol: f64) -> (f64, String) {
    if a.len() != b.len() {
        return (f64::INFINITY, format!("lengths {} vs {}", a.len(), b.len()));
    }
    let mut worst = 0.0;
    let mut msg = String::new();
    for (i, (x, y)) in a.iter().zip(b.iter()).enumerate() {
        let r = if x.is_nan() && y.is_nan() {
            0.0
        } else if x.is_nan() != y.is_nan() {
            f64::INFINITY
        } else {
            rel(*x, *y) / tol
        };
        if r > worst {
            worst = r;
            msg = format!("element {i}: {x:e} vs {y:e}");
        }
    }
    (worst, msg)
}

fn dataset_cases(tier: Tier) -> Vec<DsCase> {
    let mut out: Vec<DsCase> = vec![];
    let one = Moles::from_reduced(arr1(&[1.0]));
    let pures: Vec<(&str, bool)> = vec![("propane", true), ("pentafluoroethane [r125]", false), ("hexane", false), ("ethanol", false)];
    let recs: Vec<Value> = serde_json::from_str(&std::fs::read_to_string(zoo::pfile("pcsaft/loetgeringlin2018.json")).unwrap()).unwrap();
    let names: Vec<String> = recs.iter().map(|r| r["identifier"]["name"].as_str().unwrap_or("").to_string()).collect();
    for (name, q) in pures {
        if !names.iter().any(|n| n == name) {
            continue;
        }
        if tier == Tier::Quick && !q {
            continue;
        }
        let eos = pure_model(name);
        let Ok(cp) = State::critical_point(&eos, None, None, Default::default()) else { continue };
        let tc = cp.temperature;
        let pc = cp.pressure(Contributions::Total);
        // vapor pressure: below and above the critical temperature, with and without extrapolation, with and without a given Tc
        for extrapolate in [true, false] {
            for tc_given in [0usize, 1, 2] {
                let e = eos.clone();
                let id = format!("{name}|vapor_pressure|extrapolate={extrapolate}|tc_given={tc_given}");
                out.push(DsCase {
                    id,
                    eos: eos.clone(),
                    quick: q && tc_given < 2,
                    build: Box::new(move |tg| {
                        let ts: Vec<f64> = [0.5, 0.6, 0.75, 0.9, 0.98, 1.02, 1.1].iter().map(|f| f * tc.to_reduced()).collect();
                        let p0 = PhaseEquilibrium::pure(&e, 0.9 * tc, None, Default::default()).ok()?.vapor().pressure(Contributions::Total);
                        let b = (pc / p0).into_value().ln() / (1.0 / tc.to_reduced() - 1.0 / (0.9 * tc.to_reduced()));
                        let a = pc.to_reduced().ln() - b / tc.to_reduced();
                        let reference: Array1<f64> = ts
                            .iter()
                            .map(|&t| match PhaseEquilibrium::pure(&e, Temperature::from_reduced(t), None, Default::default()) {
                                Ok(v) => v.vapor().pressure(Contributions::Total).convert_to(PASCAL),
                                Err(_) => {
                                    if extrapolate {
                                        Pressure::from_reduced((a + b / t).exp()).convert_to(PASCAL)
                                    } else {
                                        f64::NAN
                                    }
                                }
                            })
                            .collect();
                        let target = tg.cloned().unwrap_or_else(|| reference.clone());
                        let tcg = match tc_given {
                            0 => None,
                            1 => Some(tc),
                            _ => Some(1.05 * tc),
                        };
                        let ds = VaporPressure::new(target * PASCAL, Temperature::from_reduced(Array1::from_vec(ts)), extrapolate, tcg, None);
                        Some((Arc::new(ds) as Arc<dyn DataSet<E>>, reference))
                    }),
                });
            }
        }
        // liquid density on a (T, p) lattice, incl. a supercritical state and a state below the vapour pressure
        {
            let e = eos.clone();
            let o = one.clone();
            out.push(DsCase {
                id: format!("{name}|liquid_density"),
                eos: eos.clone(),
                quick: q,
                build: Box::new(move |tg| {
                    let mut ts = vec![];
                    let mut ps = vec![];
                    for tf in [0.5, 0.7, 0.9, 1.1] {
                        for pf in [1e-6, 0.5, 2.0, 10.0] {
                            ts.push(tf * tc.to_reduced());
                            ps.push(pf * pc.to_reduced());
                        }
                    }
                    let reference: Array1<f64> = ts
                        .iter()
                        .zip(&ps)
                        .map(|(&t, &p)| match State::new_npt(&e, Temperature::from_reduced(t), Pressure::from_reduced(p), &o, DensityInitialization::Liquid) {
                            Ok(s) => s.mass_density().convert_to(KILOGRAM / METER.powi::<P3>()),
                            Err(_) => f64::NAN,
                        })
                        .collect();
                    let target = tg.cloned().unwrap_or_else(|| reference.clone());
                    let ds = LiquidDensity::new(target * (KILOGRAM / METER.powi::<P3>()), Temperature::from_reduced(Array1::from_vec(ts)), Pressure::from_reduced(Array1::from_vec(ps)));
                    Some((Arc::new(ds) as Arc<dyn DataSet<E>>, reference))
                }),
            });
        }
        {
            let e = eos.clone();
            out.push(DsCase {
                id: format!("{name}|equilibrium_liquid_density"),
                eos: eos.clone(),
                quick: q,
                build: Box::new(move |tg| {
                    let ts: Vec<f64> = [0.5, 0.6, 0.75, 0.9, 0.98, 1.02].iter().map(|f| f * tc.to_reduced()).collect();
                    let reference: Array1<f64> = ts
                        .iter()
                        .map(|&t| match PhaseEquilibrium::pure(&e, Temperature::from_reduced(t), None, Default::default()) {
                            Ok(v) => v.liquid().mass_density().convert_to(KILOGRAM / METER.powi::<P3>()),
                            Err(_) => f64::NAN,
                        })
                        .collect();
                    let target = tg.cloned().unwrap_or_else(|| reference.clone());
                    let ds = EquilibriumLiquidDensity::new(target * (KILOGRAM / METER.powi::<P3>()), Temperature::from_reduced(Array1::from_vec(ts)), None);
                    Some((Arc::new(ds) as Arc<dyn DataSet<E>>, reference))
                }),
            });
        }
        // transport data sets on a (T, p, phase) lattice
        for kind in ["viscosity", "thermal_conductivity", "diffusion"] {
            for with_phase in [false, true] {
                let e = eos.clone();
                let o = one.clone();
                out.push(DsCase {
                    id: format!("{name}|{kind}|phase_given={with_phase}"),
                    eos: eos.clone(),
                    quick: q,
                    build: Box::new(move |tg| {
                        let mut ts = vec![];
                        let mut ps = vec![];
                        let mut ph = vec![];
                        for tf in [0.6, 0.9, 1.2] {
                            for pf in [0.01, 0.5, 3.0] {
                                ts.push(tf * tc.to_reduced());
                                ps.push(pf * pc.to_reduced());
                                ph.push(if pf < 0.1 { Phase::Vapor } else { Phase::Liquid });
                            }
                        }
                        let reference: Option<Vec<f64>> = (0..ts.len())
                            .map(|i| {
                                let init: DensityInitialization = if with_phase { ph[i].into() } else { DensityInitialization::None };
                                let s = State::new_npt(&e, Temperature::from_reduced(ts[i]), Pressure::from_reduced(ps[i]), &o, init).ok()?;
                                Some(match kind {
                                    "viscosity" => s.viscosity().ok()?.convert_to(MILLI * PASCAL * SECOND),
                                    "thermal_conductivity" => s.thermal_conductivity().ok()?.convert_to(WATT / METER / KELVIN),
                                    _ => s.diffusion().ok()?.convert_to(CENTI * METER * CENTI * METER / SECOND),
                                })
                            })
                            .collect();
                        let reference = Array1::from_vec(reference?);
                        let target = tg.cloned().unwrap_or_else(|| reference.clone());
                        let (t, p) = (Temperature::from_reduced(Array1::from_vec(ts)), Pressure::from_reduced(Array1::from_vec(ps)));
                        let phase = if with_phase { Some(&ph) } else { None };
                        let ds: Arc<dyn DataSet<E>> = match kind {
                            "viscosity" => Arc::new(Viscosity::new(target * (MILLI * PASCAL * SECOND), t, p, phase)),
                            "thermal_conductivity" => Arc::new(ThermalConductivity::new(target * (WATT / METER / KELVIN), t, p, phase)),
                            _ => Arc::new(Diffusion::new(target * (CENTI * METER * CENTI * METER / SECOND), t, p, phase)),
                        };
                        Some((ds, reference))
                    }),
                });
            }
        }
    }
    // binary data sets
    let binaries: Vec<(&[&str], bool)> = vec![(&["propane", "butane"], true), (&["methane", "propane"], false), (&["ethane", "hexane"], false)];
    for (names, q) in binaries {
        if tier == Tier::Quick && !q {
            continue;
        }
        let eos: Arc<E> = Arc::new(ResidualModel::PcSaft(PcSaft::new(zoo::pcsaft_params(&[(names, "gross2001")]))));
        let bname = names.join("+");
        let tcs: Vec<f64> = (0..2).map(|i| State::critical_point(&Arc::new(eos.subset(&[i])), None, None, Default::default()).unwrap().temperature.to_reduced()).collect();
        let t = Temperature::from_reduced(0.8 * tcs[0].min(tcs[1]));
        let xs = vec![0.1, 0.3, 0.5, 0.7, 0.9];
        // bubble / dew pressure
        for phase in [Phase::Liquid, Phase::Vapor] {
            let e = eos.clone();
            let xs = xs.clone();
            let pn = if phase == Phase::Liquid { "liquid" } else { "vapor" };
            out.push(DsCase {
                id: format!("{bname}|binary_vle_pressure|{pn}"),
                eos: eos.clone(),
                quick: q,
                build: Box::new(move |tg| {
                    let n = xs.len();
                    let reference: Option<Vec<f64>> = xs
                        .iter()
                        .map(|&x| {
                            let z = arr1(&[x, 1.0 - x]);
                            let v = if phase == Phase::Liquid { PhaseEquilibrium::bubble_point(&e, t, &z, None, None, Default::default()) } else { PhaseEquilibrium::dew_point(&e, t, &z, None, None, Default::default()) }.ok()?;
                            Some(v.vapor().pressure(Contributions::Total).convert_to(PASCAL))
                        })
                        .collect();
                    let reference = Array1::from_vec(reference?);
                    let target = tg.cloned().unwrap_or_else(|| reference.clone());
                    let ds = BinaryVlePressure::new(Temperature::from_reduced(Array1::from_elem(n, t.to_reduced())), target * PASCAL, Array1::from_vec(xs.clone()), phase);
                    Some((Arc::new(ds) as Arc<dyn DataSet<E>>, reference))
                }),
            });
        }
        // chemical potential residuals at the model's own equilibrium are zero -> prediction = 1
        {
            let e = eos.clone();
            let xs = xs.clone();
            out.push(DsCase {
                id: format!("{bname}|binary_vle_chemical_potential"),
                eos: eos.clone(),
                quick: q,
                build: Box::new(move |_tg| {
                    let mut ps = vec![];
                    let mut ys = vec![];
                    for &x in &xs {
                        let v = PhaseEquilibrium::bubble_point(&e, t, &arr1(&[x, 1.0 - x]), None, None, Default::default()).ok()?;
                        ps.push(v.vapor().pressure(Contributions::Total).to_reduced());
                        ys.push(v.vapor().molefracs[0]);
                    }
                    let n = xs.len();
                    let ds = BinaryVleChemicalPotential::new(Temperature::from_reduced(Array1::from_elem(n, t.to_reduced())), Pressure::from_reduced(Array1::from_vec(ps)), Array1::from_vec(xs.clone()), Array1::from_vec(ys));
                    // the target of this data set is fixed (ones); the model-generated equilibrium must reproduce it
                    Some((Arc::new(ds) as Arc<dyn DataSet<E>>, Array1::ones(2 * n)))
                }),
            });
        }
        // phase diagram distance: experimental points taken from the model's own diagram (vertices and segment midpoints)
        for npoints in [None, Some(21usize)] {
            for which in ["liquid", "vapor", "both"] {
                for place in ["vertex", "midpoint"] {
                    let e = eos.clone();
                    out.push(DsCase {
                        id: format!("{bname}|binary_phase_diagram|T|npoints={npoints:?}|{which}|{place}"),
                        eos: eos.clone(),
                        quick: q && npoints.is_some(),
                        build: Box::new(move |_tg| {
                            let dia = PhaseDiagram::binary_vle(&e, t, npoints, None, Default::default()).ok()?;
                            let xl = dia.liquid().molefracs();
                            let xv = dia.vapor().molefracs();
                            let p: Vec<f64> = dia.vapor().iter().map(|s| s.pressure(Contributions::Total).to_reduced()).collect();
                            let n = p.len();
                            let idx: Vec<usize> = (1..n - 2).step_by((n / 6).max(1)).collect();
                            let pick = |x: &ndarray::Array2<f64>| -> (Vec<f64>, Vec<f64>) {
                                idx.iter().map(|&i| if place == "vertex" { (x[[i, 0]], p[i]) } else { (0.5 * (x[[i, 0]] + x[[i + 1, 0]]), 0.5 * (p[i] + p[i + 1])) }).unzip()
                            };
                            let (lx, lp) = pick(&xl);
                            let (vx, vp) = pick(&xv);
                            // one pressure array is shared by the liquid and vapour compositions of a point: use separate sets
                            let (tp, l, v) = match which {
                                "liquid" => (lp, Some(Array1::from_vec(lx)), None),
                                "vapor" => (vp, None, Some(Array1::from_vec(vx))),
                                _ => (p[1..n - 1].to_vec(), Some(xl.column(0).slice(ndarray::s![1..n - 1]).to_owned()), Some(xv.column(0).slice(ndarray::s![1..n - 1]).to_owned())),
                            };
                            if which == "both" && place == "midpoint" {
                                return None;
                            }
                            let m = tp.len() * if which == "both" { 4 } else { 2 };
                            let ds = BinaryPhaseDiagram::new(t, Pressure::from_reduced(Array1::from_vec(tp)), l, v, npoints);
                            Some((Arc::new(ds) as Arc<dyn DataSet<E>>, Array1::ones(m)))
                        }),
                    });
                }
            }
        }
    }
    out
}

fn dataset_case(c: &DsCase, rec: &mut Rec) {
    let Some((ds, reference)) = (c.build)(None) else {
        rec.skip("reference calculation fails (conditional)");
        return;
    };
    // exact for a direct wrapper; the phase-diagram distance and the chemical potential residual carry the solver tolerance
    let tol = if c.id.contains("binary_phase_diagram") {
        1e-7
    } else if c.id.contains("chemical_potential") {
        1e-8
    } else {
        1e-12
    };
    let pred = match ds.predict(&c.eos) {
        Ok(p) => p,
        Err(e) => {
            rec.require("predict=library_call", "", false, || format!("predict fails: {e}"));
            return;
        }
    };
    let (r, msg) = same(&pred, &reference, tol);
    rec.check("predict=library_call", "", r, true, || format!("predict differs from the library call in the data set's unit: {msg}"));
    let nfin = reference.iter().filter(|x| x.is_finite()).count();
    // model-generated targets: zero relative difference, zero cost for every loss
    let rd = ds.relative_difference(&c.eos).unwrap();
    let worst = rd.iter().zip(reference.iter()).filter(|(_, t)| t.is_finite()).map(|(x, _)| x.abs()).fold(0.0, f64::max);
    rec.check("self_generated:relative_difference=0", "", worst / tol, nfin > 0, || format!("largest relative difference {worst:e} for targets generated by the model"));
    for l in losses(&[0.05, 1.0]) {
        let cost = ds.cost(&c.eos, l).unwrap();
        let worst = cost.iter().zip(reference.iter()).filter(|(_, t)| t.is_finite()).map(|(x, _)| x.abs()).fold(0.0, f64::max);
        // sqrt(f^2 rho(z)) amplifies a relative difference of tol to at most tol (rho(z) <= z)
        rec.check("self_generated:cost=0", &loss_name(&l), worst / tol, nfin > 0, || format!("largest cost {worst:e} for targets generated by the model"));
    }
    let mard = ds.mean_absolute_relative_difference(&c.eos).unwrap();
    rec.check("self_generated:mard=0", "", mard.abs() / tol, nfin > 0, || format!("mean absolute relative difference {mard:e}"));
    rec.require("datapoints", "", ds.datapoints() == reference.len() && DataSet::<E>::target(&*ds).len() == reference.len(), || format!("datapoints {} vs {}", ds.datapoints(), reference.len()));
    // perturbed targets (only where the data set accepts targets): relative difference and cost follow their definitions
    if c.id.contains("binary_phase_diagram") || c.id.contains("chemical_potential") {
        return;
    }
    let n = reference.len();
    let deltas = [0.0, 0.013, -0.2, 0.5, -0.004, 1.7, -0.6, 0.08];
    let target: Array1<f64> = reference.iter().enumerate().map(|(i, r)| r * (1.0 + deltas[i % deltas.len()])).collect();
    let Some((ds, _)) = (c.build)(Some(&target)) else { return };
    let rd = ds.relative_difference(&c.eos).unwrap();
    let expect: Array1<f64> = reference.iter().zip(target.iter()).map(|(p, t)| (p - t) / t).collect();
    let (r, msg) = same_abs(&rd, &expect, 1e-12);
    rec.check("relative_difference=(prediction-target)/target", "", r, true, || msg.clone());
    for l in losses(&[0.05, 1.0]) {
        let cost = ds.cost(&c.eos, l).unwrap();
        let f = match l {
            Loss::Linear => 1.0,
            Loss::SoftL1(f) | Loss::Huber(f) | Loss::Cauchy(f) | Loss::Arctan(f) => f,
        };
        let mut worst: f64 = 0.0;
        let mut msg = String::new();
        for i in 0..n {
            if !expect[i].is_finite() {
                continue;
            }
            let c0 = closed_form(&l, expect[i]) / n as f64;
            let r = (cost[i] - c0).abs() / (loss_tol(c0 * n as f64, f) / n as f64 + 1e-13 * (1.0 + expect[i].abs()) / n as f64);
            if r > worst {
                worst = r;
                msg = format!("cost[{i}] = {:e}, closed form / datapoints = {c0:e} (relative difference {:e})", cost[i], expect[i]);
            }
        }
        rec.check("cost=loss(relative_difference)/datapoints", &loss_name(&l), worst, true, || msg.clone());
    }
    let finite: Vec<f64> = expect.iter().filter(|x| x.is_finite()).map(|x| x.abs()).collect();
    if !finite.is_empty() {
        let m = finite.iter().sum::<f64>() / finite.len() as f64;
        let mard = ds.mean_absolute_relative_difference(&c.eos).unwrap();
        rec.check("mard=mean(|relative_difference|) over finite entries", "", (mard - m).abs() / (1e-12 * m.max(1e-300)), true, || format!("mean absolute relative difference {mard:e} vs {m:e}"));
    }
}

fn same_abs(a: &Array1<f64>, b: &Array1<f64>, tol: f64) -> (f64, String) {
    let mut worst = 0.0;
    let mut msg = String::new();
    for (i, (x, y)) in a.iter().zip(b.iter()).enumerate() {
        let r = if x.is_nan() && y.is_nan() {
            0.0
        } else if x.is_nan() != y.is_nan() {
            f64::INFINITY
        } else {
            (x - y).abs() / (tol * (1.0 + y.abs()))
        };
        if r > worst {
            worst = r;
            msg = format!("element {i}: {x:e} vs {y:e}");
        }
    }
    (worst, msg)
}

struct EstCase {
    id: String,
    weights: Vec<f64>,
    losses: Vec<Loss>,
}

fn estimator_case(c: &EstCase, sets: &[(Arc<dyn DataSet<E>>, Arc<E>)], rec: &mut Rec) {
    let eos = &sets[0].1;
    let data: Vec<Arc<dyn DataSet<E>>> = sets.iter().map(|s| s.0.clone()).collect();
    let est = Estimator::new(data.clone(), c.weights.clone(), c.losses.clone());
    let cost = est.cost(eos).unwrap();
    let wsum: f64 = c.weights.iter().sum();
    let mut expect = vec![];
    for (i, d) in data.iter().enumerate() {
        let ci = d.cost(eos, c.losses[i]).unwrap();
        expect.extend(ci.iter().map(|x| x * c.weights[i] / wsum));
    }
    let (r, msg) = same_abs(&cost, &Array1::from_vec(expect), 1e-13);
    rec.check("estimator_cost=normalised_weights*dataset_cost", "", r, true, || msg.clone());
    // scaling all weights by a constant does not change the cost
    let est2 = Estimator::new(data.clone(), c.weights.iter().map(|w| w * 7.5).collect(), c.losses.clone());
    let (r, msg) = same_abs(&est2.cost(eos).unwrap(), &cost, 1e-13);
    rec.check("estimator_cost_invariant_under_weight_scaling", "", r, true, || msg.clone());
    // add_data gives the same estimator
    let mut est3 = Estimator::new(vec![], vec![], vec![]);
    for (i, d) in data.iter().enumerate() {
        est3.add_data(d, c.weights[i], c.losses[i]);
    }
    let (r, msg) = same_abs(&est3.cost(eos).unwrap(), &cost, 0.0 + 1e-15);
    rec.check("add_data=new", "", r, true, || msg.clone());
    let preds = est.predict(eos).unwrap();
    let rds = est.relative_difference(eos).unwrap();
    let mards = est.mean_absolute_relative_difference(eos).unwrap();
    for (i, d) in data.iter().enumerate() {
        let (r, msg) = same(&preds[i], &d.predict(eos).unwrap(), 1e-15);
        rec.check("estimator_predict=dataset_predict", &format!("{i}"), r, true, || msg.clone());
        let (r, msg) = same_abs(&rds[i], &d.relative_difference(eos).unwrap(), 1e-15);
        rec.check("estimator_relative_difference=dataset", &format!("{i}"), r, true, || msg.clone());
        let m = d.mean_absolute_relative_difference(eos).unwrap();
        rec.check("estimator_mard=dataset", &format!("{i}"), (mards[i] - m).abs() / (1e-15 * (1.0 + m.abs())), true, || format!("{} vs {m}", mards[i]));
    }
}

pub fn run(ctx: &mut Ctx) {
    let tier = ctx.tier;
    let tcases = transport_cases(tier);
    ctx.run(&tcases, |c| format!("transport|{}", c.id), transport_case);
    let ls = losses(&tier.pick(vec![0.05, 1.0], vec![1e-3, 0.01, 0.05, 0.5, 1.0, 2.0, 10.0]));
    ctx.run(&ls, |l| format!("loss|{}", loss_name(l)), loss_case);
    let dcases: Vec<DsCase> = dataset_cases(tier).into_iter().filter(|c| tier == Tier::Thorough || c.quick).collect();
    ctx.run(&dcases, |c| format!("dataset|{}", c.id), dataset_case);
    // estimator: three perturbed data sets of the first pure model x weight vectors x loss assignments
    let mut sets: Vec<(Arc<dyn DataSet<E>>, Arc<E>)> = vec![];
    for c in dcases.iter().filter(|c| c.id.starts_with("propane|") && (c.id.contains("vapor_pressure|extrapolate=true|tc_given=0") || c.id.contains("liquid_density") && !c.id.contains("equilibrium") || c.id.contains("viscosity|phase_given=true"))) {
        if let Some((_, reference)) = (c.build)(None) {
            let target: Array1<f64> = reference.iter().enumerate().map(|(i, r)| r * (1.0 + 0.03 * (i as f64 - 2.0))).collect();
            if let Some((ds, _)) = (c.build)(Some(&target)) {
                sets.push((ds, c.eos.clone()));
            }
        }
    }
    if sets.len() == 3 {
        let mut ecases = vec![];
        let all = losses(&[0.05, 1.0]);
        for (wi, w) in [vec![1.0, 1.0, 1.0], vec![1.0, 2.0, 3.0], vec![0.5, 0.0, 2.0], vec![10.0, 1e-3, 1.0]].into_iter().enumerate() {
            for li in 0..all.len() {
                let ls = vec![all[li], all[(li + 1) % all.len()], all[(li + 4) % all.len()]];
                if tier == Tier::Quick && li % 3 != 0 {
                    continue;
                }
                ecases.push(EstCase { id: format!("w{wi}|l{li}"), weights: w.clone(), losses: ls });
            }
        }
        ctx.run(&ecases, |c| format!("estimator|{}", c.id), |c, rec| estimator_case(c, &sets, rec));
    } else {
        ctx.machinery_error = Some(format!("estimator part: only {} of 3 data sets could be built", sets.len()));
    }
    ctx.rule = "transport: every PC-SAFT record of loetgeringlin2018 with viscosity coefficients (plus synthetic diffusion / thermal conductivity coefficients, a dipolar-quadrupolar probe record, default and non-default model options) and every SAFT-VRQ Mie record x T in {0.6..2} T_c x rho in {1e-4..0.85} rho_max: value = reference x exp(correlation); correlation = closed form of the state's own s_res/m; references = Chapman-Enskog closed forms in SI units; positive and finite; second state with the same s_res at 1.25 T gives the same reduced value; binary with x2 in {1e-3,1e-6,1e-9} converges linearly to the pure value; diffusion/thermal conductivity of mixtures are errors. estimator: every loss x scaling factor x residual lattice (both signs, around the Huber switch, 1e-8..1e6) against the cancellation-free closed form; every data-set type x configuration (vapor pressure with/without extrapolation and given Tc incl. supercritical temperatures, liquid / equilibrium liquid density incl. failing states, viscosity / thermal conductivity / diffusion with and without phases, binary bubble/dew pressure, chemical potential, phase-diagram distance from the model's own diagram at vertices and midpoints): predict = library call in the data set's unit, model-generated targets give zero relative difference / cost / MARD for every loss, perturbed targets reproduce the definitions; Estimator: 4 weight vectors x loss assignments: cost = normalised weights x data-set cost, invariant under weight scaling, add_data = new, predict / relative difference / MARD = per data set".into();
    ctx.assume("synthetic diffusion and thermal-conductivity coefficients stand in for fitted ones (no parameter file ships any)");
}
