//! shared mixture lattice for C05, C06, C07, C12: binary pairs of the shipped PC-SAFT hydrocarbon records
use crate::engine::Tier;
use crate::zoo::pfile;
use feos::pcsaft::{PcSaft, PcSaftParameters, PcSaftRecord};
use feos::ResidualModel;
use feos_core::parameter::{Parameter, PureRecord};
use feos_core::{Contributions, PhaseEquilibrium, ReferenceSystem, State};
use ndarray::Array1;
use std::sync::Arc;

pub type M = Arc<ResidualModel>;
pub type Vle = PhaseEquilibrium<ResidualModel, 2>;

#[derive(Clone)]
pub struct Pair {
    pub id: String,
    pub eos: M,
    pub tc: [f64; 2],
    pub ratio: f64,
    /// the success clause of C05 applies (T_c ratio < 1.5)
    pub in_domain: bool,
}
impl Pair {
    pub fn tc_low(&self) -> f64 {
        self.tc[0].min(self.tc[1])
    }
}

/// the first 51 records of gross2001.json are the hydrocarbons (n-alkanes, branched alkanes, cycloalkanes, alkenes, aromatics)
pub fn hydrocarbon_records() -> Vec<PureRecord<PcSaftRecord>> {
    let recs: Vec<PureRecord<PcSaftRecord>> = serde_json::from_reader(std::fs::File::open(pfile("pcsaft/gross2001.json")).unwrap()).unwrap();
    recs.into_iter().take(51).collect()
}

pub fn pairs(tier: Tier, max_ratio: f64) -> Vec<Pair> {
    let recs = hydrocarbon_records();
    let tcs: Vec<f64> = recs
        .iter()
        .map(|r| {
            let eos = Arc::new(PcSaft::new(Arc::new(PcSaftParameters::new_pure(r.clone()).unwrap())));
            State::critical_point(&eos, None, None, Default::default()).unwrap().temperature.to_reduced()
        })
        .collect();
    let mut out = vec![];
    let mut k = 0usize;
    for i in 0..recs.len() {
        for j in (i + 1)..recs.len() {
            let ratio = (tcs[i] / tcs[j]).max(tcs[j] / tcs[i]);
            if ratio >= max_ratio {
                continue;
            }
            k += 1;
            // quick: every 4th pair (a fixed subset of the thorough set)
            if tier == Tier::Quick && k % 4 != 1 {
                continue;
            }
            let p = PcSaftParameters::new_binary(vec![recs[i].clone(), recs[j].clone()], None).unwrap();
            let name = |r: &PureRecord<PcSaftRecord>| r.identifier.name.clone().unwrap_or_default();
            out.push(Pair { id: format!("{}+{}", name(&recs[i]), name(&recs[j])), eos: Arc::new(ResidualModel::PcSaft(PcSaft::new(Arc::new(p)))), tc: [tcs[i], tcs[j]], ratio, in_domain: ratio < 1.5 });
        }
    }
    out
}

pub const TRS: [f64; 3] = [0.65, 0.775, 0.9];
pub const XS: [f64; 5] = [0.05, 0.275, 0.5, 0.725, 0.95];
/// thorough lattices (supersets of the quick ones)
pub fn trs(tier: Tier) -> Vec<f64> {
    match tier {
        Tier::Quick => TRS.to_vec(),
        Tier::Thorough => vec![0.6, 0.65, 0.7, 0.775, 0.85, 0.9],
    }
}
pub fn xs_lattice(tier: Tier) -> Vec<f64> {
    match tier {
        Tier::Quick => XS.to_vec(),
        Tier::Thorough => vec![0.05, 0.15, 0.275, 0.4, 0.5, 0.6, 0.725, 0.85, 0.95],
    }
}
pub const WS: [f64; 3] = [0.25, 0.5, 0.75];

/// worst relative difference of the fugacities x_i phi_i between the two phases
pub fn isofugacity(vle: &Vle) -> f64 {
    let (v, l) = (vle.vapor(), vle.liquid());
    let fv = &v.molefracs * &v.ln_phi().mapv(f64::exp);
    let fl = &l.molefracs * &l.ln_phi().mapv(f64::exp);
    fv.iter().zip(fl.iter()).map(|(a, b)| (a - b).abs() / a.abs().max(b.abs()).max(1e-300)).fold(0.0, f64::max)
}
pub fn rel_dp(vle: &Vle) -> f64 {
    let (pv, pl) = (vle.vapor().pressure(Contributions::Total).to_reduced(), vle.liquid().pressure(Contributions::Total).to_reduced());
    (pv - pl).abs() / pv.abs().max(pl.abs())
}
pub fn distance(vle: &Vle) -> f64 {
    let (v, l) = (vle.vapor(), vle.liquid());
    let dx = (&v.molefracs - &l.molefracs).iter().fold(0.0f64, |a, b| a.max(b.abs()));
    let dr = ((v.density - l.density) / l.density).into_value().abs();
    dx.max(dr)
}
pub fn xvec(x: f64) -> Array1<f64> {
    ndarray::arr1(&[x, 1.0 - x])
}
