//! C01 — State properties are exact derivatives of the Helmholtz energy (DESIGN §5 C01)
//!
//! Per lattice state, for every derivative key and every contribution (plus the sum):
//!   analytic dual-number derivative  ==  Richardson finite difference of the next-lower-order
//!   analytic quantity evaluated at neighbouring states,
//! and every State getter == the documented sign/key mapping of the analytic total.
//! Caloric getters (cv, cp, speed of sound, Joule-Thomson, dlnphi/dT|dp|dN) are compared with
//! differences of neighbouring *constructed* states (new_npt, new_nts, new_nph).
use super::common::*;
use crate::engine::{Ctx, Rec};
use crate::zoo::{self, FullModel};
use feos_core::Derivative::{self, *};
use feos_core::{Contributions, DensityInitialization, ReferenceSystem, Residual, State};
use ndarray::Array1;
use quantity::*;
use serde_json::json;

#[derive(Clone, Copy, Debug)]
enum Key {
    First(Derivative),
    Second(Derivative),
    Mixed(Derivative, Derivative),
    Third(Derivative),
}
fn dn(d: Derivative) -> String {
    match d {
        DV => "V".into(),
        DT => "T".into(),
        DN(i) => format!("N{i}"),
    }
}
impl Key {
    fn name(&self) -> String {
        match self {
            Key::First(a) => format!("d{}", dn(*a)),
            Key::Second(a) => format!("d{0}d{0}", dn(*a)),
            Key::Mixed(a, b) => format!("d{}d{}", dn(*a), dn(*b)),
            Key::Third(a) => format!("d{0}d{0}d{0}", dn(*a)),
        }
    }
}

fn keys(n: usize) -> Vec<Key> {
    let mut k = vec![Key::First(DV), Key::First(DT)];
    for i in 0..n {
        k.push(Key::First(DN(i)));
    }
    k.push(Key::Second(DV));
    k.push(Key::Second(DT));
    // mixed keys in both orders: Mixed(a, b) differences dA/da along b, so a derivative that is
    // wrong only in one variable is seen from the other side as well
    k.push(Key::Mixed(DV, DT));
    k.push(Key::Mixed(DT, DV));
    for i in 0..n {
        k.push(Key::Mixed(DV, DN(i)));
        k.push(Key::Mixed(DT, DN(i)));
        k.push(Key::Mixed(DN(i), DV));
        k.push(Key::Mixed(DN(i), DT));
        for j in 0..n {
            k.push(Key::Mixed(DN(i), DN(j)));
        }
    }
    k.push(Key::Third(DV));
    k.push(Key::Third(DT));
    k
}

/// A_c = T * (beta A)_c for every contribution c, plus the total as last entry
fn names(s: &St) -> Vec<String> {
    let mut v: Vec<String> = s.eos.residual_helmholtz_energy_contributions(&s.derive0()).into_iter().map(|c| c.0).collect();
    v.push("total".into());
    v
}
fn a0(s: &St) -> Vec<f64> {
    let sh = s.derive0();
    let mut v: Vec<f64> = s.eos.residual_helmholtz_energy_contributions(&sh).into_iter().map(|c| c.1 * sh.temperature).collect();
    v.push(s.eos.residual_helmholtz_energy(&sh) * sh.temperature);
    v
}
fn a1(s: &St, d: Derivative) -> Vec<f64> {
    let sh = s.derive1(d);
    let mut v: Vec<f64> = s.eos.residual_helmholtz_energy_contributions(&sh).into_iter().map(|c| (c.1 * sh.temperature).eps).collect();
    v.push((s.eos.residual_helmholtz_energy(&sh) * sh.temperature).eps);
    v
}
fn a2(s: &St, d: Derivative) -> Vec<f64> {
    let sh = s.derive2(d);
    let mut v: Vec<f64> = s.eos.residual_helmholtz_energy_contributions(&sh).into_iter().map(|c| (c.1 * sh.temperature).v2).collect();
    v.push((s.eos.residual_helmholtz_energy(&sh) * sh.temperature).v2);
    v
}
fn a2m(s: &St, d1: Derivative, d2: Derivative) -> Vec<f64> {
    let sh = s.derive2_mixed(d1, d2);
    let mut v: Vec<f64> = s.eos.residual_helmholtz_energy_contributions(&sh).into_iter().map(|c| (c.1 * sh.temperature).eps1eps2).collect();
    v.push((s.eos.residual_helmholtz_energy(&sh) * sh.temperature).eps1eps2);
    v
}
fn a3(s: &St, d: Derivative) -> Vec<f64> {
    let sh = s.derive3(d);
    let mut v: Vec<f64> = s.eos.residual_helmholtz_energy_contributions(&sh).into_iter().map(|c| (c.1 * sh.temperature).v3).collect();
    v.push((s.eos.residual_helmholtz_energy(&sh) * sh.temperature).v3);
    v
}

fn case(c: &StateCase, rec: &mut Rec) {
    let eos = &c.entry.eos;
    let (t, v0) = (c.t(), c.v());
    let x = &c.x;
    let n = x.len();
    let s = c.state();
    let base = a0(&s);
    if !base.iter().all(|a| a.is_finite()) {
        rec.skip(&format!("A_res not finite: {}", c.entry.id));
        return;
    }
    let nm = names(&s);
    let shifted = |d: Derivative, h: f64| -> St {
        match d {
            DV => mk(eos, t, v0 + h, x),
            DT => mk(eos, t + h, v0, x),
            DN(i) => {
                let mut nn = x.clone();
                nn[i] += h;
                mk(eos, t, v0, &nn)
            }
        }
    };
    let var = |d: Derivative| match d {
        DV => v0,
        DT => t,
        DN(i) => x[i],
    };
    let ntot: f64 = x.sum();
    // ideal-gas magnitude of a derivative of A (absolute round-off floor, cf. C02)
    let ideal = |ds: &[Derivative]| {
        let mut sc = ntot * t;
        for d in ds {
            sc /= match d {
                DV => v0,
                DT => t,
                DN(_) => ntot,
            };
        }
        sc
    };
    for key in keys(n) {
        // analytic vector, lower-order function, finite-difference variable
        let (ana, fdvar, lower, ds): (Vec<f64>, Derivative, Box<dyn Fn(&St) -> Vec<f64>>, Vec<Derivative>) = match key {
            Key::First(a) => (a1(&s, a), a, Box::new(|q: &St| a0(q)), vec![a]),
            Key::Second(a) => (a2(&s, a), a, Box::new(move |q: &St| a1(q, a)), vec![a, a]),
            Key::Mixed(a, b) => (a2m(&s, a, b), b, Box::new(move |q: &St| a1(q, a)), vec![a, b]),
            Key::Third(a) => (a3(&s, a), a, Box::new(move |q: &St| a2(q, a)), vec![a, a, a]),
        };
        let h = 1e-3 * var(fdvar);
        let f = |hh: f64| lower(&shifted(fdvar, hh));
        let (p1, m1, p2, m2) = (f(h), f(-h), f(2.0 * h), f(-2.0 * h));
        let q0 = lower(&s);
        let fl = 1e-12 * ideal(&ds);
        for k in 0..ana.len() {
            let d1 = (p1[k] - m1[k]) / (2.0 * h);
            let d2 = (p2[k] - m2[k]) / (4.0 * h);
            let r = (4.0 * d1 - d2) / 3.0;
            let e = (d1 - d2).abs();
            let sc = ana[k].abs().max(q0[k].abs() / var(fdvar));
            let err = (ana[k] - r).abs();
            let mut lim = 50.0 * e + 1e-7 * sc + fl / 1e-3;
            if !(err <= lim) && err.is_finite() {
                // measured evaluation noise of the differenced quantity, amplified by 1/h
                let q = |vv: f64| lower(&shifted(fdvar, vv - var(fdvar)))[k];
                let nu = noise(&q, var(fdvar), q0[k].abs().max(1e-300));
                lim += 100.0 * nu * q0[k].abs() / h;
                rec.count("noise_measured");
            }
            let nontrivial = ana[k].abs() > 1e-9 * sc && ana[k].abs() > fl;
            rec.check(&key.name(), &nm[k], err / lim.max(1e-300), nontrivial, || {
                format!("contribution '{}': analytic {} = {:e}, Richardson difference of the lower-order quantity = {:e} (truncation estimate {:e}, limit {:e})", nm[k], key.name(), ana[k], r, e, lim)
            });
        }
        // State getter == documented mapping of the analytic total
        let tot = *ana.last().unwrap();
        let getter: Option<(&str, f64)> = match key {
            Key::First(DV) => Some(("pressure", -s.pressure(Contributions::Residual).to_reduced())),
            Key::First(DT) => Some(("residual_entropy", -s.residual_entropy().to_reduced())),
            Key::First(DN(i)) => Some(("residual_chemical_potential", s.residual_chemical_potential().to_reduced()[i])),
            Key::Second(DV) => Some(("dp_dv", -s.dp_dv(Contributions::Residual).to_reduced())),
            Key::Second(DT) => Some(("ds_res_dt", -s.ds_res_dt().to_reduced())),
            Key::Mixed(DV, DT) => Some(("dp_dt", -s.dp_dt(Contributions::Residual).to_reduced())),
            Key::Mixed(DV, DN(i)) => Some(("dp_dni", -s.dp_dni(Contributions::Residual).to_reduced()[i])),
            Key::Mixed(DT, DN(i)) => Some(("dmu_res_dt", s.dmu_res_dt().to_reduced()[i])),
            Key::Mixed(DN(i), DN(j)) => Some(("dmu_dni", s.dmu_dni(Contributions::Residual).to_reduced()[[i, j]])),
            Key::Third(DV) => Some(("d2p_dv2", -s.d2p_dv2(Contributions::Residual).to_reduced())),
            Key::Third(DT) => Some(("d2s_res_dt2", -s.d2s_res_dt2().to_reduced())),
            _ => None,
        };
        if let Some((gname, gval)) = getter {
            let err = (gval - tot).abs();
            let lim = 1e-9 * tot.abs().max(gval.abs()) + fl;
            rec.check("getter", &format!("{gname}|{}", key.name()), err / lim.max(1e-300), tot.abs() > fl, || format!("State::{gname} gives {gval:e} but the {} derivative of A_res is {tot:e}", key.name()));
        }
    }
    // per-contribution getters of State
    {
        let pc = s.pressure_contributions();
        let a1v = a1(&s, DV);
        // first entry of pressure_contributions is the ideal gas
        for (k, (name, p)) in pc.iter().skip(1).enumerate() {
            let err = (p.to_reduced() + a1v[k]).abs();
            let lim = 1e-9 * a1v[k].abs() + 1e-12 * ideal(&[DV]);
            rec.check("getter", &format!("pressure_contributions|{name}"), err / lim.max(1e-300), a1v[k] != 0.0, || format!("pressure contribution {name} = {:e}, -dA_c/dV = {:e}", p.to_reduced(), -a1v[k]));
        }
        let ac = s.residual_helmholtz_energy_contributions();
        for (k, (name, a)) in ac.iter().enumerate() {
            let err = (a.to_reduced() - base[k]).abs();
            rec.check("getter", &format!("helmholtz_contributions|{name}"), err / (1e-9 * base[k].abs() + 1e-12 * ideal(&[])).max(1e-300), base[k] != 0.0, || format!("contribution {name}: {:e} vs {:e}", a.to_reduced(), base[k]));
        }
        for i in 0..n {
            let mc = s.residual_chemical_potential_contributions(i);
            let a1n = a1(&s, DN(i));
            for (k, (name, m)) in mc.iter().enumerate() {
                let err = (m.to_reduced() - a1n[k]).abs();
                rec.check("getter", &format!("chemical_potential_contributions|{name}|{i}"), err / (1e-9 * a1n[k].abs() + 1e-12 * ideal(&[DN(i)])).max(1e-300), a1n[k] != 0.0, || format!("mu contribution {name}[{i}]: {:e} vs {:e}", m.to_reduced(), a1n[k]));
            }
        }
    }
    rec.sample(json!({"case": c.key(), "contributions": nm, "keys": keys(n).len()}));
}

// ---------------------------------------------------------------------------------------
// caloric properties from neighbouring constructed states

fn rich_opt(f: &dyn Fn(f64) -> Option<f64>, h: f64) -> Option<(f64, f64)> {
    let d1 = (f(h)? - f(-h)?) / (2.0 * h);
    let d2 = (f(2.0 * h)? - f(-2.0 * h)?) / (4.0 * h);
    Some(((4.0 * d1 - d2) / 3.0, (d1 - d2).abs()))
}

fn case_caloric(c: &(StateCase, FullModel), rec: &mut Rec) {
    let (c, eos) = c;
    let t = c.t();
    let x = &c.x;
    let m = Moles::from_reduced(x.clone());
    let s = State::new_nvt(eos, Temperature::from_reduced(t), Volume::from_reduced(c.v()), &m).unwrap();
    if !(s.dp_dv(Contributions::Total).to_reduced() < 0.0) || !(s.pressure(Contributions::Total).to_reduced() > 0.0) {
        rec.skip("mechanically unstable or p<=0 (no npt neighbours)");
        return;
    }
    let p = s.pressure(Contributions::Total);
    let init = DensityInitialization::InitialDensity(s.density);
    // a neighbouring state is only a neighbour if the iteration stayed on the branch of the base state (a step of 1e-3 in T
    // or p changes the density by far less than 5 % away from a spinodal); otherwise the constructor found the other phase
    let rho0 = s.density.to_reduced();
    let near = move |q: State<_>| if (q.density.to_reduced() / rho0 - 1.0).abs() < 0.05 { Some(q) } else { None };
    let at = |tt: f64, pp: Pressure| State::new_npt(eos, Temperature::from_reduced(tt), pp, &m, init).ok().and_then(near);
    let ht = 1e-3 * t;
    let hp = 1e-3 * p.to_reduced();
    let cell = std::cell::RefCell::new((rec, 0usize));
    // `natural`: magnitude of the quantity for an ideal gas (floor for identities between zeros);
    // `qnoise`: absolute uncertainty of the differenced quantity (tolerance of the solver that
    // constructs the neighbouring state), amplified by 1/h
    let chk = |name: &str, sub: &str, ana: f64, r: Option<(f64, f64)>, natural: f64, qnoise_over_h: f64| match r {
        Some((r, e)) => {
            let sc = ana.abs().max(r.abs()).max(natural);
            let lim = 50.0 * e + 1e-6 * sc + 100.0 * qnoise_over_h;
            if e > 0.05 * r.abs().max(natural) {
                // the two step sizes disagree by more than 5 %: the difference quotient itself is not
                // converged (state next to a spinodal, where cp and dlnphi/dT diverge)
                cell.borrow_mut().0.skip("difference quotient not converged (near-singular state)");
                return;
            }
            if 100.0 * qnoise_over_h > 0.01 * ana.abs().max(natural) {
                cell.borrow_mut().0.skip("difference quotient not resolvable (solver tolerance / step)");
                return;
            }
            cell.borrow_mut().0.check(name, sub, (ana - r).abs() / lim.max(1e-300), ana.abs() > 1e-6 * natural, || format!("{name}: analytic {ana:e} vs difference of neighbouring states {r:e} (estimate {e:e}, limit {lim:e})"));
        }
        None => cell.borrow_mut().1 += 1,
    };
    let run = |name: &str, sub: &str, ana: f64, f: &dyn Fn(f64) -> Option<f64>, h: f64, natural: f64, qnoise: f64| chk(name, sub, ana, rich_opt(f, h), natural, qnoise / h);
    let pr = p.to_reduced();
    let ntot = x.sum();
    run("cp", "", s.molar_isobaric_heat_capacity(Contributions::Total).to_reduced(), &|h| at(t + h, p).map(|q| q.molar_enthalpy(Contributions::Total).to_reduced()), ht, 1.0, 1e-10 * t);
    run("cv", "", s.molar_isochoric_heat_capacity(Contributions::Total).to_reduced(), &|h| State::new_nvt(eos, Temperature::from_reduced(t + h), s.volume, &m).ok().map(|q| q.molar_internal_energy(Contributions::Total).to_reduced()), ht, 1.0, 0.0);
    let h0 = s.molar_enthalpy(Contributions::Total);
    run(
        "joule_thomson",
        "",
        s.joule_thomson().to_reduced(),
        &|h| State::new_nph(eos, Pressure::from_reduced(p.to_reduced() + h), h0, &m, init, Some(Temperature::from_reduced(t))).ok().and_then(near).map(|q| q.temperature.to_reduced()),
        hp,
        t / pr,
        2e-8,
    );
    // speed of sound: c^2 = (dp/drho_mass)_s along the isentrope (parametrised by T)
    {
        let s0 = s.molar_entropy(Contributions::Total);
        let c2 = s.speed_of_sound().to_reduced().powi(2);
        let fp = |h: f64| State::new_nts(eos, Temperature::from_reduced(t + h), s0, &m, init).ok().and_then(near).map(|q| (q.pressure(Contributions::Total).to_reduced(), q.mass_density().to_reduced()));
        if let (Some(a), Some(b), Some(cc), Some(d)) = (fp(ht), fp(-ht), fp(2.0 * ht), fp(-2.0 * ht)) {
            let d1 = (a.0 - b.0) / (a.1 - b.1);
            let d2 = (cc.0 - d.0) / (cc.1 - d.1);
            chk("speed_of_sound", "", c2, Some(((4.0 * d1 - d2) / 3.0, (d1 - d2).abs())), 0.0, 0.0);
        } else {
            chk("speed_of_sound", "", c2, None, 0.0, 0.0);
        }
    }
    for i in 0..x.len() {
        run("dln_phi_dt", &format!("{i}"), s.dln_phi_dt().to_reduced()[i], &|h| at(t + h, p).map(|q| q.ln_phi()[i]), ht, 1.0 / t, 1e-11);
        run("dln_phi_dp", &format!("{i}"), s.dln_phi_dp().to_reduced()[i], &|h| at(t, Pressure::from_reduced(p.to_reduced() + h)).map(|q| q.ln_phi()[i]), hp, 1.0 / pr, 1e-11);
        for j in 0..x.len() {
            let hn = 1e-3 * x[j];
            run(
                "dln_phi_dnj",
                &format!("{i},{j}"),
                s.dln_phi_dnj().to_reduced()[[i, j]],
                &|h| {
                    let mut nn = x.clone();
                    nn[j] += h;
                    State::new_npt(eos, Temperature::from_reduced(t), p, &Moles::from_reduced(nn), init).ok().map(|q| q.ln_phi()[i])
                },
                hn,
                1.0 / ntot,
                1e-11,
            );
        }
    }
    // residual and ideal-gas heat capacities are consistent pieces of the total
    let _ = Array1::<f64>::zeros(0);
    let (rec, skipped) = cell.into_inner();
    for _ in 0..skipped {
        rec.skip("neighbouring constructed state not found");
    }
}

pub fn run(ctx: &mut Ctx) {
    let z = zoo::zoo(ctx.tier);
    // the finite-difference oracle needs a residual part that is resolvable in double precision and mole numbers that can be
    // stepped in both directions: the extreme corners of the shared lattice (eta = 1e-8, trace components of 1e-6) are left to
    // the identity-based checks (C02, C10)
    let cases: Vec<_> = state_lattice(&z, ctx.tier).into_iter().filter(|c| c.eta >= 1e-6 && c.x.iter().all(|x| *x >= 1e-3)).collect();
    ctx.rule = format!(
        "full product zoo({}) x compositions x T/Tref {:?} x eta/eta_max {:?} x every derivative key {{V,T,N_i; VV,TT,VT,VN_i,TN_i,N_iN_j; VVV,TTT}} x every contribution returned by residual_helmholtz_energy_contributions (+ total); oracle: analytic dual-number derivative vs Richardson central difference (rel. step 1e-3) of the next-lower-order analytic quantity at neighbouring states, accepted iff |ana-R| <= 50*e + 1e-7*scale + 1e-9*ideal-gas magnitude (+100*nu*|Q|/h with measured noise nu when exceeded); State getters vs the sign/key mapping of the analytic total (1e-9); caloric getters vs differences of new_npt/new_nts/new_nph neighbours; non-trivial = |analytic| > 1e-9*scale; distinct = (case, key, contribution)",
        z.len(),
        t_factors(ctx.tier),
        eta_factors(ctx.tier)
    );
    ctx.extra("models", json!(z.iter().map(|e| e.id.clone()).collect::<Vec<_>>()));
    ctx.run(&cases, |c| c.key(), case);
    let recs = zoo::dippr_records();
    let full: Vec<(StateCase, FullModel)> = cases.iter().filter_map(|c| zoo::with_ideal_gas(&c.entry, &recs).map(|f| (c.clone(), f))).collect();
    ctx.run(&full, |c| format!("caloric|{}", c.0.key()), case_caloric);
    ctx.assume("continuous coordinates (T, rho, x) covered on the stated lattice only; parameter sets = the zoo (shipped records + synthetic feature combinations), no random perturbation");
}
