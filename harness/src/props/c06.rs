//! C06 — critical points and spinodals satisfy their defining conditions
use super::c15::{physical_critical_point, pure_cases, PureCase};
use super::mix::*;
use crate::engine::{rich, Ctx, Rec, Tier};
use feos::ResidualModel;
use feos_core::cubic::{PengRobinson, PengRobinsonParameters};
use feos_core::{Contributions, PhaseDiagram, PhaseEquilibrium, ReferenceSystem, State};
use ndarray::{arr1, Array1};
use quantity::*;
use serde_json::json;
use std::sync::Arc;

type St = State<ResidualModel>;

/// pure-component criticality: dp/dV = d2p/dV2 = 0 (scaled by p/V), p > 0
fn pure_conditions(rec: &mut Rec, sub: &str, cp: &St) {
    let p = cp.pressure(Contributions::Total);
    rec.require("positive_pressure", sub, p.to_reduced() > 0.0, || format!("returned critical point has p = {p} (T = {}, rho = {})", cp.temperature, cp.density));
    if p.to_reduced() > 0.0 {
        let c1 = (cp.dp_dv(Contributions::Total) * cp.volume / p).into_value().abs();
        let c2 = (cp.d2p_dv2(Contributions::Total) * cp.volume * cp.volume / p).into_value().abs();
        rec.check("dp_dv=0", sub, c1 / 1e-6, true, || format!("V dp/dV / p = {c1:e}"));
        rec.check("d2p_dv2=0", sub, c2 / 1e-5, true, || format!("V^2 d2p/dV2 / p = {c2:e}"));
    }
}

/// smallest eigenvalue of sqrt(n_i n_j)/RT dmu_i/dN_j and the corresponding eigenvector (binary: closed form; general: power iteration on the shifted matrix)
fn smallest_ev(s: &St) -> (f64, Array1<f64>) {
    let n = s.moles.to_reduced();
    let t = s.temperature.to_reduced();
    let h = s.dmu_dni(Contributions::Total).to_reduced();
    let k = n.len();
    let q = ndarray::Array2::from_shape_fn((k, k), |(i, j)| h[[i, j]] * (n[i] * n[j]).sqrt() / t);
    // Jacobi-free: inverse-free shifted power iteration (matrices are tiny and symmetric)
    let shift = (0..k).map(|i| (0..k).map(|j| q[[i, j]].abs()).sum::<f64>()).fold(0.0, f64::max) + 1.0;
    let mut v = Array1::from_elem(k, 1.0 / (k as f64).sqrt());
    v[0] += 0.1;
    for _ in 0..20000 {
        let w = &v * shift - q.dot(&v);
        let nrm = w.dot(&w).sqrt();
        let w = w / nrm;
        let d = (&w - &v).mapv(f64::abs).sum();
        v = w;
        if d < 1e-15 {
            break;
        }
    }
    let lam = v.dot(&q.dot(&v));
    (lam, v)
}

fn mixture_conditions(rec: &mut Rec, sub: &str, cp: &St) {
    let (lam, u) = smallest_ev(cp);
    rec.check("lambda_min=0", sub, lam.abs() / 1e-6, true, || format!("smallest eigenvalue of the scaled composition Hessian = {lam:e}"));
    // third directional derivative: d/ds [ w^T (d mu/d N)/RT w ] along n(s) = n + s w, w = u sqrt(n)
    let n0 = cp.moles.to_reduced();
    let w = &u * &n0.mapv(f64::sqrt);
    let t = cp.temperature;
    let g = |sv: f64| {
        let n = &n0 + &(&w * sv);
        let st = State::new_nvt(&cp.eos, t, cp.volume, &Moles::from_reduced(n)).unwrap();
        let h = st.dmu_dni(Contributions::Total).to_reduced() / t.to_reduced();
        w.dot(&h.dot(&w))
    };
    // step relative to the amount: s * w ~ 1e-3 * n  (w = u sqrt(n))
    let (c, e) = rich(&g, 1e-3 * n0.sum().sqrt());
    // natural scale: sum |w_i|^3 / n_i^2 (ideal part of the cubic form)
    let sc: f64 = w.iter().zip(n0.iter()).map(|(w, n)| w.abs().powi(3) / (n * n)).sum::<f64>().max(1e-300);
    rec.check("third_derivative=0", sub, c.abs() / (50.0 * e + 1e-5 * sc), true, || format!("third directional derivative = {c:e} (scale {sc:e}, estimate {e:e})"));
    rec.require("positive_pressure", sub, cp.pressure(Contributions::Total).to_reduced() > 0.0, || format!("mixture critical point at p = {}", cp.pressure(Contributions::Total)));
}

fn pure_case(cases: &[PureCase], c: &(usize, Tier), rec: &mut Rec) {
    let pc = &cases[c.0];
    let Ok(eos) = (pc.build)() else {
        rec.skip("record does not build");
        return;
    };
    // default start
    match State::critical_point(&eos, None, None, Default::default()) {
        Ok(cp) => pure_conditions(rec, "default_start", &cp),
        Err(_) => rec.skip("critical_point fails from the default start (conditional)"),
    }
    let Some(cp) = physical_critical_point(&eos) else {
        rec.skip("no physical critical point");
        return;
    };
    pure_conditions(rec, "physical", &cp);
    let tc = cp.temperature;
    // initial temperatures in [0.5, 1.6] of the true value: whenever Ok, the conditions hold
    for f in [0.5, 0.7, 0.9, 1.1, 1.3, 1.6] {
        match State::critical_point(&eos, None, Some(tc * f), Default::default()) {
            Ok(c2) => {
                pure_conditions(rec, &format!("init={f}"), &c2);
                if c2.pressure(Contributions::Total).to_reduced() > 0.0 {
                    let d = ((c2.temperature - tc) / tc).into_value().abs();
                    if d > 1e-6 {
                        rec.count("other_stationary_point_from_initial_temperature");
                    }
                }
            }
            Err(_) => rec.skip("critical_point from an initial temperature fails (conditional)"),
        }
    }
    // spinodals
    let trs: Vec<f64> = match c.1 {
        Tier::Quick => vec![0.6, 0.9],
        Tier::Thorough => vec![0.5, 0.55, 0.6, 0.65, 0.7, 0.75, 0.8, 0.85, 0.9, 0.95, 0.99],
    };
    for tr in trs {
        let t = tc * tr;
        let Ok([sv, sl]) = State::spinodal(&eos, t, None, Default::default()) else {
            rec.skip("spinodal fails (conditional)");
            continue;
        };
        let key = format!("Tr={tr:.3}");
        let pscale = cp.pressure(Contributions::Total);
        for (nm, s) in [("vapor", &sv), ("liquid", &sl)] {
            let e = (s.dp_dv(Contributions::Total) * s.volume / pscale).into_value().abs();
            rec.check("spinodal_dp_dv=0", &format!("{key}|{nm}"), e / 1e-5, true, || format!("V dp/dV / p_c = {e:e} at the {nm} spinodal"));
        }
        rec.require("spinodal_brackets_rho_c", &key, sv.density < cp.density && cp.density < sl.density, || format!("rho_sp,v = {}, rho_c = {}, rho_sp,l = {}", sv.density, cp.density, sl.density));
        if let Ok(vle) = PhaseEquilibrium::pure(&eos, t, None, Default::default()) {
            rec.require("spinodal_inside_binodal", &key, vle.vapor().density < sv.density && sl.density < vle.liquid().density, || format!("binodal ({}, {}), spinodal ({}, {})", vle.vapor().density, vle.liquid().density, sv.density, sl.density));
        }
    }
}

fn pr_case(c: &(f64, f64, f64), rec: &mut Rec) {
    let (tc, pc, om) = *c;
    let p = PengRobinsonParameters::new_simple(&[tc], &[pc], &[om], &[50.0]).unwrap();
    let eos = Arc::new(ResidualModel::PengRobinson(PengRobinson::new(Arc::new(p))));
    match State::critical_point(&eos, None, None, Default::default()) {
        Ok(cp) => {
            pure_conditions(rec, "pr", &cp);
            let et = (cp.temperature.convert_into(KELVIN) - tc).abs() / tc;
            let ep = (cp.pressure(Contributions::Total).convert_into(PASCAL) - pc).abs() / pc;
            // 0.45724 / 0.07780 are rounded constants: the critical point of the rounded equation differs from (Tc, pc) by 1e-5
            rec.check("pr_tc_pc", "T", et / 1e-4, true, || format!("Tc = {} vs {tc} K", cp.temperature));
            rec.check("pr_tc_pc", "p", ep / 1e-4, true, || format!("pc = {} vs {pc} Pa", cp.pressure(Contributions::Total)));
        }
        Err(_) => {
            // trial temperatures 300/700/500 K: retry with the known Tc as initial value
            match State::critical_point(&eos, None, Some(tc * KELVIN), Default::default()) {
                Ok(cp) => {
                    rec.count("pr_needed_initial_temperature");
                    pure_conditions(rec, "pr", &cp);
                    let et = (cp.temperature.convert_into(KELVIN) - tc).abs() / tc;
                    rec.check("pr_tc_pc", "T", et / 1e-4, true, || format!("Tc = {} vs {tc} K", cp.temperature));
                }
                Err(_) => rec.skip("PR critical point not found (conditional)"),
            }
        }
    }
}

fn mix_case(c: &(Pair, f64), rec: &mut Rec) {
    let (pair, x) = c;
    let eos = &pair.eos;
    let m = xvec(*x) * MOL;
    match State::critical_point(eos, Some(&m), None, Default::default()) {
        Ok(cp) => {
            mixture_conditions(rec, "critical_point", &cp);
            // binary critical point at the temperature / pressure just found: echoes the specification
            let (t, p) = (cp.temperature, cp.pressure(Contributions::Total));
            match State::critical_point_binary(eos, t, None, Some([*x, 1.0 - x]), Default::default()) {
                Ok(c2) => {
                    rec.require("spec_echo", "binary_T", c2.temperature == t, || format!("critical_point_binary(T = {t}) returned T = {}", c2.temperature));
                    mixture_conditions(rec, "binary_T", &c2);
                }
                Err(_) => rec.skip("critical_point_binary(T) fails (conditional)"),
            }
            match State::critical_point_binary(eos, p, Some(t), Some([*x, 1.0 - x]), Default::default()) {
                Ok(c2) => {
                    let e = ((c2.pressure(Contributions::Total) - p) / p).into_value().abs();
                    rec.check("spec_echo", "binary_p", e / 1e-6, true, || format!("critical_point_binary(p = {p}) returned p = {}", c2.pressure(Contributions::Total)));
                    mixture_conditions(rec, "binary_p", &c2);
                }
                Err(_) => rec.skip("critical_point_binary(p) fails (conditional)"),
            }
            // mixture spinodal at 0.9 Tc: vanishing smallest eigenvalue, brackets the critical density
            if let Ok([sv, sl]) = State::spinodal(eos, t * 0.9, Some(&m), Default::default()) {
                for (nm, s) in [("vapor", &sv), ("liquid", &sl)] {
                    let (lam, _) = smallest_ev(s);
                    rec.check("spinodal_lambda_min=0", nm, lam.abs() / 1e-6, true, || format!("smallest eigenvalue at the {nm} spinodal = {lam:e}"));
                }
                rec.require("spinodal_brackets_rho_c", "mixture", sv.density < cp.density && cp.density < sl.density, || format!("rho_sp,v = {}, rho_c = {}, rho_sp,l = {}", sv.density, cp.density, sl.density));
            } else {
                rec.skip("mixture spinodal fails (conditional)");
            }
        }
        Err(_) => rec.skip("mixture critical point fails (conditional)"),
    }
}

fn envelope_case(c: &Pair, rec: &mut Rec) {
    let m = arr1(&[0.4, 0.6]) * MOL;
    let Ok(cp) = State::critical_point(&c.eos, Some(&m), None, Default::default()) else {
        rec.skip("no mixture critical point");
        return;
    };
    match PhaseDiagram::spinodal(&c.eos, &m, cp.temperature * 0.7, 7, None, Default::default()) {
        Ok(d) => {
            for (i, s) in d.states.iter().enumerate().take(d.states.len().saturating_sub(1)) {
                for (nm, st) in [("vapor", s.vapor()), ("liquid", s.liquid())] {
                    let (lam, _) = smallest_ev(st);
                    rec.check("spinodal_lambda_min=0", &format!("diagram|{i}|{nm}"), lam.abs() / 1e-6, true, || format!("PhaseDiagram::spinodal point {i} {nm}: eigenvalue {lam:e}"));
                }
            }
        }
        Err(_) => rec.skip("PhaseDiagram::spinodal fails (conditional)"),
    }
}

pub fn run(ctx: &mut Ctx) {
    let tier = ctx.tier;
    let cases = pure_cases();
    let sel: Vec<(usize, Tier)> = (0..cases.len()).filter(|k| tier == Tier::Thorough || k % 7 == 0 || cases[*k].file.starts_with("saftvr")).map(|k| (k, tier)).collect();
    ctx.run(&sel, |c| format!("{}|{}", cases[c.0].file, cases[c.0].name), |c, rec| pure_case(&cases, c, rec));
    // Peng-Robinson (Tc, pc, omega) lattice
    let mut pr = vec![];
    for tc in [150.0, 250.0, 369.8, 500.0, 650.0, 850.0] {
        for pc in [5e5, 1.5e6, 3e6, 4.19e6, 7e6, 2.2e7] {
            for om in [-0.2, 0.0, 0.153, 0.35, 0.6, 1.0] {
                pr.push((tc, pc, om));
            }
        }
    }
    ctx.run(&pr, |c| format!("pr|Tc={}|pc={}|omega={}", c.0, c.1, c.2), pr_case);
    // mixtures
    let ps = pairs(tier, 1.8);
    let mut mc = vec![];
    for p in &ps {
        for x in tier.pick(vec![0.25, 0.5, 0.75], vec![0.05, 0.15, 0.25, 0.35, 0.5, 0.65, 0.75, 0.85, 0.95]) {
            mc.push((p.clone(), x));
        }
    }
    ctx.run(&mc, |c| format!("{}|x={}", c.0.id, c.1), mix_case);
    let env: Vec<Pair> = ps.iter().step_by(tier.pick(8, 2)).cloned().collect();
    ctx.run(&env, |c| format!("envelope|{}", c.id), envelope_case);
    ctx.extra("pure_records", json!(sel.len()));
    ctx.extra("pairs", json!(ps.len()));
    ctx.rule = format!("pure: {} records of the shipped collections: critical point from the default start, the physical one, and from initial temperatures Tc x {{0.5,0.7,0.9,1.1,1.3,1.6}}: p > 0, V dp/dV / p and V^2 d2p/dV2 / p vanish (1e-6 / 1e-5), recomputed from the State; spinodals on a T_r lattice: dp/dV = 0, bracket rho_c, inside the binodal; Peng-Robinson 6x6x6 (Tc, pc, omega) lattice: critical point = parameters; mixtures: {} pairs x x in {{0.25,0.5,0.75}} (thorough: 9 compositions 0.05..0.95): smallest eigenvalue of sqrt(n_i n_j)/RT dmu_i/dN_j (power iteration) and third directional derivative along its eigenvector (Richardson difference of the quadratic form) vanish, critical_point_binary(T) / (p) echo the specification, mixture spinodals and PhaseDiagram::spinodal", sel.len(), ps.len());
    ctx.assume("lattices as stated; eigenvector from the harness' own power iteration");
}
