//! C14 — parameter construction is order-independent and faithful to its records
use super::c08::props;
use crate::engine::{Ctx, Rec, Tier};
use crate::zoo::pfile;
use feos::epcsaft::{ElectrolytePcSaft, ElectrolytePcSaftParameters};
use feos::gc_pcsaft::{GcPcSaft, GcPcSaftEosParameters, GcPcSaftRecord};
use feos::pcsaft::{PcSaft, PcSaftParameters, PcSaftRecord};
use feos::saftvrmie::{SaftVRMie, SaftVRMieParameters};
use feos::saftvrqmie::{SaftVRQMie, SaftVRQMieParameters};
use feos::ResidualModel;
use feos_core::parameter::{BinaryRecord, ChemicalRecord, IdentifierOption, Parameter, ParameterHetero, PureRecord, SegmentRecord};
use feos_core::{ReferenceSystem, Residual};
use ndarray::{arr1, Array1};
use quantity::Moles;
use serde::Serialize;
use serde_json::{json, Value};
use std::collections::BTreeMap;
use std::sync::Arc;

const SCRATCH: &str = "/verif/target/scratch/c14";
type Job = (String, Box<dyn Fn(&mut Rec) + Send + Sync>);

fn path_of(rel: &str) -> String {
    if rel.starts_with('/') {
        rel.to_string()
    } else {
        pfile(rel)
    }
}
fn read(rel: &str) -> Vec<Value> {
    serde_json::from_reader(std::fs::File::open(path_of(rel)).unwrap()).unwrap()
}
fn write(name: &str, v: &[Value]) -> String {
    let p = format!("{SCRATCH}/{name}");
    std::fs::write(&p, serde_json::to_string(v).unwrap()).unwrap();
    p
}
const OPTS: [(IdentifierOption, &str); 6] = [
    (IdentifierOption::Name, "name"),
    (IdentifierOption::Cas, "cas"),
    (IdentifierOption::IupacName, "iupac_name"),
    (IdentifierOption::Smiles, "smiles"),
    (IdentifierOption::Inchi, "inchi"),
    (IdentifierOption::Formula, "formula"),
];

/// ordered subsets of 0..n with size 1..=kmax
fn ordered_subsets(n: usize, kmax: usize) -> Vec<Vec<usize>> {
    let mut out: Vec<Vec<usize>> = vec![];
    let mut cur: Vec<Vec<usize>> = (0..n).map(|i| vec![i]).collect();
    for _ in 0..kmax {
        out.extend(cur.iter().cloned());
        let mut next = vec![];
        for c in &cur {
            for i in 0..n {
                if !c.contains(&i) {
                    let mut d = c.clone();
                    d.push(i);
                    next.push(d);
                }
            }
        }
        cur = next;
    }
    out
}

/// JSON construction of one parameter type from one pure file (+ optional binary file): query order,
/// identifier kinds, file order, binary orientation.
fn json_jobs<P>(tag: &'static str, pure_rel: &'static str, binary_rel: Option<&'static str>, kmax: usize, stride: usize, jobs: &mut Vec<Job>)
where
    P: Parameter + 'static,
    P::Pure: Serialize,
    P::Binary: Serialize,
{
    let raw = read(pure_rel);
    let n = raw.len();
    // file variants: original, reversed, rotated by n/2
    let mut rev = raw.clone();
    rev.reverse();
    let mut rot = raw.clone();
    rot.rotate_left(n / 2);
    let files = vec![("orig", path_of(pure_rel)), ("reversed", write(&format!("{tag}_rev.json"), &rev)), ("rotated", write(&format!("{tag}_rot.json"), &rot))];
    let braw = binary_rel.map(read);
    let bfiles: Vec<(&str, Option<String>)> = match &braw {
        Some(b) => {
            let swapped: Vec<Value> = b
                .iter()
                .map(|r| {
                    let mut s = r.clone();
                    s["id1"] = r["id2"].clone();
                    s["id2"] = r["id1"].clone();
                    s
                })
                .collect();
            let mut brev = b.clone();
            brev.reverse();
            vec![("b-orig", Some(path_of(binary_rel.unwrap()))), ("b-swapped", Some(write(&format!("{tag}_bswap.json"), &swapped))), ("b-reversed", Some(write(&format!("{tag}_brev.json"), &brev))), ("b-none", None)]
        }
        None => vec![("b-none", None)],
    };
    let raw = Arc::new(raw);
    let braw = Arc::new(braw);
    let subsets = ordered_subsets(n, kmax);
    for (si, q) in subsets.into_iter().enumerate() {
        if si % stride != 0 {
            continue;
        }
        let (raw, braw, files, bfiles) = (raw.clone(), braw.clone(), files.clone(), bfiles.clone());
        let key = format!("{tag}|query={q:?}");
        jobs.push((
            key,
            Box::new(move |rec: &mut Rec| {
                for (opt, okey) in OPTS {
                    // identifier kind usable if every queried record carries it and it is unique in the file
                    let ids: Vec<Option<&str>> = q.iter().map(|&i| raw[i]["identifier"][okey].as_str()).collect();
                    if ids.iter().any(|i| i.is_none()) {
                        continue;
                    }
                    let ids: Vec<&str> = ids.into_iter().flatten().collect();
                    let unique_in_file = ids.iter().all(|id| raw.iter().filter(|r| r["identifier"][okey].as_str() == Some(id)).count() == 1);
                    let distinct = (0..ids.len()).all(|a| (0..a).all(|b| ids[a] != ids[b]));
                    if !unique_in_file || !distinct {
                        continue;
                    }
                    for (fname, fpath) in &files {
                        for (bname, bpath) in &bfiles {
                            let sub = format!("{okey}|{fname}|{bname}");
                            let r = P::from_json(ids.clone(), fpath.clone(), bpath.clone(), opt);
                            let p = match r {
                                Ok(p) => p,
                                Err(e) => {
                                    rec.require("from_json", &sub, false, || format!("from_json({ids:?}, {fname}, {bname}, {okey}) failed: {e}"));
                                    continue;
                                }
                            };
                            let (pure, bin) = p.records();
                            // components in query order, faithful to the record
                            let mut ok = pure.len() == q.len();
                            for (k, &i) in q.iter().enumerate() {
                                if !ok {
                                    break;
                                }
                                let got = serde_json::to_value(&pure[k]).unwrap();
                                let want: Value = serde_json::to_value(serde_json::from_value::<PureRecord<P::Pure>>(raw[i].clone()).unwrap()).unwrap();
                                ok &= got == want;
                            }
                            rec.require("query_order", &sub, ok, || format!("from_json({ids:?}, {fname}, {okey}): components are not the queried records in query order"));
                            // binary matrix: record found in either orientation, default otherwise
                            if let (Some(b), Some(_)) = (braw.as_ref(), bpath) {
                                let default = serde_json::to_value(P::Binary::default()).unwrap();
                                let mut okb = true;
                                let mut found = 0;
                                for a in 0..q.len() {
                                    for c in 0..q.len() {
                                        let (ia, ic) = (ids[a], ids[c]);
                                        let want = b
                                            .iter()
                                            .find(|r| (r["id1"][okey].as_str() == Some(ia) && r["id2"][okey].as_str() == Some(ic)) || (r["id1"][okey].as_str() == Some(ic) && r["id2"][okey].as_str() == Some(ia)))
                                            .map(|r| serde_json::to_value(serde_json::from_value::<P::Binary>(r["model_record"].clone()).unwrap()).unwrap());
                                        let got = match bin {
                                            Some(m) => serde_json::to_value(&m[[a, c]]).unwrap(),
                                            None => default.clone(),
                                        };
                                        if a != c && want.is_some() {
                                            found += 1;
                                        }
                                        let want = if a == c { default.clone() } else { want.unwrap_or(default.clone()) };
                                        okb &= got == want;
                                    }
                                }
                                if found > 0 {
                                    rec.count("binary_records_resolved");
                                }
                                rec.require("binary_either_orientation", &sub, okb, || format!("from_json({ids:?}, {fname}, {bname}, {okey}): binary matrix differs from the records of the binary file (either orientation) / default"));
                            }
                        }
                    }
                }
                // duplicates and missing substances are rejected
                let names: Vec<&str> = q.iter().filter_map(|&i| raw[i]["identifier"]["name"].as_str()).collect();
                if names.len() == q.len() {
                    let mut dup = names.clone();
                    dup.push(names[0]);
                    rec.require("rejects_duplicate", "", P::from_json(dup.clone(), files[0].1.clone(), None, IdentifierOption::Name).is_err(), || format!("from_json({dup:?}) with a duplicated substance returned Ok"));
                    let mut miss = names.clone();
                    miss.insert(0, "no such substance (verif)");
                    rec.require("rejects_missing", "", P::from_json(miss.clone(), files[0].1.clone(), None, IdentifierOption::Name).is_err(), || format!("from_json({miss:?}) with a missing substance returned Ok"));
                    // the query split across two files in every way gives the same parameters
                    if q.len() >= 2 {
                        let whole = P::from_json(names.clone(), files[0].1.clone(), bfiles[0].1.clone(), IdentifierOption::Name).ok().map(|p| serde_json::to_value(p.records().0).unwrap());
                        for cut in 1..q.len() {
                            let input = vec![(names[..cut].to_vec(), files[1].1.clone()), (names[cut..].to_vec(), files[2].1.clone())];
                            let split = P::from_multiple_json(&input, bfiles[0].1.clone(), IdentifierOption::Name).ok().map(|p| serde_json::to_value(p.records().0).unwrap());
                            rec.require("from_multiple_json", &format!("cut={cut}"), whole.is_some() && whole == split, || format!("from_multiple_json with the query {names:?} split at {cut} differs from from_json"));
                        }
                        // the same substance in both parts is a duplicate
                        let input = vec![(names.clone(), files[0].1.clone()), (vec![names[0]], files[1].1.clone())];
                        rec.require("rejects_duplicate", "across_files", P::from_multiple_json(&input, None, IdentifierOption::Name).is_err(), || "from_multiple_json accepted a substance named in two parts".into());
                    }
                }
            }),
        ));
    }
}

fn perms(n: usize) -> Vec<Vec<usize>> {
    let mut out = vec![];
    fn rec(cur: &mut Vec<usize>, used: &mut Vec<bool>, n: usize, out: &mut Vec<Vec<usize>>) {
        if cur.len() == n {
            out.push(cur.clone());
            return;
        }
        for i in 0..n {
            if !used[i] {
                used[i] = true;
                cur.push(i);
                rec(cur, used, n, out);
                cur.pop();
                used[i] = false;
            }
        }
    }
    rec(&mut vec![], &mut vec![false; n], n, &mut out);
    out
}

/// reference implementation of the documented homosegmented combining rules
fn combine(cr: &ChemicalRecord, segs: &[SegmentRecord<PcSaftRecord>]) -> Option<(f64, f64, f64, f64, Option<f64>, Option<f64>, f64, f64)> {
    let mut counts: BTreeMap<&str, f64> = BTreeMap::new();
    for s in &cr.segments {
        *counts.entry(s.as_str()).or_insert(0.0) += 1.0;
    }
    let (mut m, mut s3, mut e, mut mw, mut na, mut nb) = (0.0, 0.0, 0.0, 0.0, 0.0, 0.0);
    let (mut mu, mut q) = (None::<f64>, None::<f64>);
    for (name, cnt) in counts {
        let sr = segs.iter().find(|s| s.identifier == name)?;
        let r = &sr.model_record;
        m += r.m * cnt;
        s3 += r.m * r.sigma.powi(3) * cnt;
        e += r.m * r.epsilon_k * cnt;
        mw += sr.molarweight * cnt;
        if let Some(x) = r.mu {
            mu = Some(mu.unwrap_or(0.0) + x * cnt);
        }
        if let Some(x) = r.q {
            q = Some(q.unwrap_or(0.0) + x * cnt);
        }
        if let Some(a) = &r.association_record {
            na += a.na * cnt;
            nb += a.nb * cnt;
        }
    }
    Some((m, (s3 / m).cbrt(), e / m, mw, mu, q, na, nb))
}

fn gc_jobs(tier: Tier, jobs: &mut Vec<Job>) {
    let subs: Vec<ChemicalRecord> = serde_json::from_reader(std::fs::File::open(pfile("pcsaft/gc_substances.json")).unwrap()).unwrap();
    let homo: Arc<Vec<SegmentRecord<PcSaftRecord>>> = Arc::new(serde_json::from_reader(std::fs::File::open(pfile("pcsaft/sauer2014_homo.json")).unwrap()).unwrap());
    let hetero: Arc<Vec<SegmentRecord<GcPcSaftRecord>>> = Arc::new(serde_json::from_reader(std::fs::File::open(pfile("pcsaft/sauer2014_hetero.json")).unwrap()).unwrap());
    let rehner: Arc<Vec<SegmentRecord<PcSaftRecord>>> = Arc::new(serde_json::from_reader(std::fs::File::open(pfile("pcsaft/rehner2023_homo.json")).unwrap()).unwrap());
    let rehner_bin: Arc<Vec<BinaryRecord<String, f64>>> = Arc::new(serde_json::from_reader(std::fs::File::open(pfile("pcsaft/rehner2023_homo_binary.json")).unwrap()).unwrap());
    let max_perm_len = tier.pick(5, 8);
    for cr in subs.iter().cloned() {
        let (homo, hetero) = (homo.clone(), hetero.clone());
        let rehner_t = rehner.clone();
        let name = cr.identifier.name.clone().unwrap_or_default();
        jobs.push((
            format!("gc|{name}"),
            Box::new(move |rec: &mut Rec| {
                // combining rules vs reference
                // serde round trip of the chemical record itself: same groups, same bond graph, same heterosegmented model
                {
                    let txt = serde_json::to_string(&cr).unwrap();
                    match serde_json::from_str::<ChemicalRecord>(&txt) {
                        Ok(cr2) => {
                            let norm = |c: &ChemicalRecord| {
                                let mut b: Vec<[usize; 2]> = c.bonds.iter().map(|b| if b[0] <= b[1] { *b } else { [b[1], b[0]] }).collect();
                                b.sort();
                                b
                            };
                            rec.require("serde_round_trip", "chemical_record|segments", cr2.segments == cr.segments, || format!("segments {:?} re-read as {:?}", cr.segments, cr2.segments));
                            rec.require("serde_round_trip", "chemical_record|bonds", norm(&cr2) == norm(&cr), || format!("bond graph {:?} re-read as {:?} (serialised: {txt})", norm(&cr), norm(&cr2)));
                            if let (Ok(p1), Ok(p2)) = (GcPcSaftEosParameters::from_segments(vec![cr.clone()], hetero.to_vec(), None), GcPcSaftEosParameters::from_segments(vec![cr2], hetero.to_vec(), None)) {
                                let (e1, e2) = (Arc::new(ResidualModel::GcPcSaft(GcPcSaft::new(Arc::new(p1)))), Arc::new(ResidualModel::GcPcSaft(GcPcSaft::new(Arc::new(p2)))));
                                let x: Array1<f64> = arr1(&[1.0]);
                                let rho = e1.max_density(Some(&Moles::from_reduced(x.clone()))).unwrap().to_reduced();
                                let (a, b) = (props(&e1, 400.0, 1.0 / (rho * 0.5), &x), props(&e2, 400.0, 1.0 / (rho * 0.5), &x));
                                // (two separately built gc parameter sets sum their groups in HashMap order: agreement to 1e-10, not bitwise)
                                let worst = a.iter().zip(b.iter()).map(|(u, v)| if u.1.is_nan() && v.1.is_nan() { 0.0 } else { (u.1 - v.1).abs() / (1e-10 * u.1.abs().max(u.2.abs()).max(1e-300)) }).fold(0.0, f64::max);
                                rec.check("serde_round_trip", "chemical_record|behaviour", worst, true, || "heterosegmented model built from the re-read chemical record differs".into());
                            }
                        }
                        Err(e) => rec.require("serde_round_trip", "chemical_record|parse", false, || format!("re-reading the serialised chemical record fails: {e}: {txt}")),
                    }
                }
                // reference decision: the table must have every group and at most one group occurrence may be polar / associating
                let complete = cr.segments.iter().all(|g| homo.iter().any(|s| &s.identifier == g));
                let polar = cr.segments.iter().filter(|g| homo.iter().find(|s| &&s.identifier == g).is_some_and(|s| s.model_record.mu.is_some() || s.model_record.q.is_some() || s.model_record.association_record.as_ref().is_some_and(|a| a.na + a.nb + a.nc > 0.0))).count();
                let built = PcSaftParameters::from_segments(vec![cr.clone()], homo.to_vec(), None);
                rec.require("assembles_iff_allowed", "sauer2014_homo", built.is_ok() == (complete && polar <= 1), || format!("from_segments is {} although the table is {} for {:?} and {polar} polar/associating group(s) occur", if built.is_ok() { "Ok" } else { "Err" }, if complete { "complete" } else { "incomplete" }, cr.segments));
                for (tn, table) in [("rehner2023_homo", &rehner_t)] {
                    let complete = cr.segments.iter().all(|g| table.iter().any(|s| &s.identifier == g));
                    let polar = cr.segments.iter().filter(|g| table.iter().find(|s| &&s.identifier == g).is_some_and(|s| s.model_record.mu.is_some() || s.model_record.q.is_some() || s.model_record.association_record.as_ref().is_some_and(|a| a.na + a.nb + a.nc > 0.0))).count();
                    let b = PcSaftParameters::from_segments(vec![cr.clone()], table.to_vec(), None);
                    rec.require("assembles_iff_allowed", tn, b.is_ok() == (complete && polar <= 1), || format!("from_segments is {} although the table is {} for {:?} and {polar} polar/associating group(s) occur", if b.is_ok() { "Ok" } else { "Err" }, if complete { "complete" } else { "incomplete" }, cr.segments));
                }
                let Ok(p) = built else {
                    rec.skip("homo segment table lacks a group or the substance has several polar/associating groups");
                    return;
                };
                let Some((m, sigma, eps, mw, mu, q, na, nb)) = combine(&cr, &homo) else {
                    rec.skip("reference cannot resolve a group");
                    return;
                };
                let r = &p.records().0[0];
                let chk = |rec: &mut Rec, nm: &str, got: f64, want: f64| rec.check("combining_rules", nm, (got - want).abs() / (1e-12 * want.abs().max(1e-300) + 1e-300), true, || format!("{nm}: from_segments gives {got}, documented rule {want}"));
                chk(rec, "m", r.model_record.m, m);
                chk(rec, "sigma", r.model_record.sigma, sigma);
                chk(rec, "epsilon_k", r.model_record.epsilon_k, eps);
                chk(rec, "molarweight", r.molarweight, mw);
                rec.require("combining_rules", "mu", r.model_record.mu.map(|v| (v - mu.unwrap_or(f64::NAN)).abs() < 1e-12).unwrap_or(mu.is_none()), || format!("mu {:?} vs {mu:?}", r.model_record.mu));
                rec.require("combining_rules", "q", r.model_record.q.map(|v| (v - q.unwrap_or(f64::NAN)).abs() < 1e-12).unwrap_or(q.is_none()), || format!("q {:?} vs {q:?}", r.model_record.q));
                if let Some(a) = &r.model_record.association_record {
                    chk(rec, "na", a.na + 1.0, na + 1.0);
                    chk(rec, "nb", a.nb + 1.0, nb + 1.0);
                }
                // every order of the segment list (bonds relabelled) gives the same model: homo and hetero
                let nseg = cr.segments.len();
                if nseg <= max_perm_len {
                    let e0: Arc<ResidualModel> = Arc::new(ResidualModel::PcSaft(PcSaft::new(Arc::new(p))));
                    let x = arr1(&[1.0]);
                    let rho = e0.max_density(Some(&Moles::from_reduced(x.clone()))).unwrap().to_reduced();
                    let base = props(&e0, 400.0, 1.0 / (0.5 * rho), &x);
                    let h0 = GcPcSaftEosParameters::from_segments(vec![cr.clone()], hetero.to_vec(), None).ok().map(|p| Arc::new(ResidualModel::GcPcSaft(GcPcSaft::new(Arc::new(p)))));
                    let hbase = h0.as_ref().map(|e| props(e, 400.0, 1.0 / (0.5 * rho), &x));
                    let mut nperm = 0u64;
                    for pm in perms(nseg) {
                        // new position k holds old segment pm[k]; old index i moves to inv[i]
                        let mut inv = vec![0; nseg];
                        for (k, &i) in pm.iter().enumerate() {
                            inv[i] = k;
                        }
                        let segs: Vec<String> = pm.iter().map(|&i| cr.segments[i].clone()).collect();
                        let bonds: Vec<[usize; 2]> = cr.bonds.iter().map(|b| [inv[b[0]], inv[b[1]]]).collect();
                        let crp = ChemicalRecord::new(cr.identifier.clone(), segs, Some(bonds));
                        nperm += 1;
                        match PcSaftParameters::from_segments(vec![crp.clone()], homo.to_vec(), None) {
                            Ok(pp) => {
                                let e: Arc<ResidualModel> = Arc::new(ResidualModel::PcSaft(PcSaft::new(Arc::new(pp))));
                                let v = props(&e, 400.0, 1.0 / (0.5 * rho), &x);
                                let worst = base.iter().zip(v.iter()).map(|(a, b)| (a.1 - b.1).abs() / (1e-11 * a.1.abs().max(b.1.abs()) + 1e-13 * a.2)).fold(0.0f64, f64::max);
                                rec.check("segment_order_homo", "", worst, true, || format!("segment order {pm:?} changes the homosegmented model"));
                            }
                            Err(e) => rec.require("segment_order_homo", "", false, || format!("segment order {pm:?}: {e}")),
                        }
                        if let Some(hb) = &hbase {
                            match GcPcSaftEosParameters::from_segments(vec![crp], hetero.to_vec(), None) {
                                Ok(pp) => {
                                    let e: Arc<ResidualModel> = Arc::new(ResidualModel::GcPcSaft(GcPcSaft::new(Arc::new(pp))));
                                    let v = props(&e, 400.0, 1.0 / (0.5 * rho), &x);
                                    let worst = hb.iter().zip(v.iter()).map(|(a, b)| (a.1 - b.1).abs() / (1e-10 * a.1.abs().max(b.1.abs()) + 1e-13 * a.2)).fold(0.0f64, f64::max);
                                    rec.check("segment_order_hetero", "", worst, true, || format!("segment order {pm:?} (bonds relabelled) changes the heterosegmented model"));
                                }
                                Err(e) => rec.require("segment_order_hetero", "", false, || format!("segment order {pm:?}: {e}")),
                            }
                        }
                    }
                    rec.count_n("segment_orders", nperm);
                } else {
                    rec.skip("more than the tier's maximum number of segments for the all-orders enumeration");
                }
            }),
        ));
    }
    // from_json_segments: query order kept, duplicates and missing names rejected
    for k in (0..subs.len().saturating_sub(2)).step_by(tier.pick(9, 1)) {
        let names3: Vec<String> = (k..k + 3).filter_map(|i| subs[i].identifier.name.clone()).collect();
        jobs.push((
            format!("gc_json|{}", names3.join("+")),
            Box::new(move |rec: &mut Rec| {
                let (sub, seg) = (pfile("pcsaft/gc_substances.json"), pfile("pcsaft/sauer2014_homo.json"));
                let n: Vec<&str> = names3.iter().map(|s| s.as_str()).collect();
                for q in [vec![n[0], n[1], n[2]], vec![n[2], n[0], n[1]], vec![n[1], n[2], n[0]]] {
                    match PcSaftParameters::from_json_segments(&q, sub.clone(), seg.clone(), None, IdentifierOption::Name) {
                        Ok(p) => {
                            let got: Vec<String> = p.records().0.iter().map(|r| r.identifier.name.clone().unwrap_or_default()).collect();
                            rec.require("query_order", "from_json_segments", got.iter().map(|s| s.as_str()).collect::<Vec<_>>() == q, || format!("from_json_segments({q:?}) returns components {got:?}"));
                        }
                        Err(_) => rec.skip("homo segment table lacks a group"),
                    }
                    // the heterosegmented builders keep the query order as well
                    let het = pfile("pcsaft/sauer2014_hetero.json");
                    match GcPcSaftEosParameters::from_json_segments(&q, sub.clone(), het.clone(), None, IdentifierOption::Name) {
                        Ok(p) => {
                            let got: Vec<String> = p.chemical_records.iter().map(|r| r.identifier.name.clone().unwrap_or_default()).collect();
                            rec.require("query_order", "hetero_eos_from_json_segments", got.iter().map(|s| s.as_str()).collect::<Vec<_>>() == q, || format!("GcPcSaftEosParameters::from_json_segments({q:?}) returns components {got:?}"));
                        }
                        Err(_) => rec.skip("hetero segment table lacks a group"),
                    }
                    match feos::gc_pcsaft::GcPcSaftFunctionalParameters::from_json_segments(&q, sub.clone(), het.clone(), None, IdentifierOption::Name) {
                        Ok(p) => {
                            let got: Vec<String> = p.chemical_records.iter().map(|r| r.identifier.name.clone().unwrap_or_default()).collect();
                            rec.require("query_order", "hetero_dft_from_json_segments", got.iter().map(|s| s.as_str()).collect::<Vec<_>>() == q, || format!("GcPcSaftFunctionalParameters::from_json_segments({q:?}) returns components {got:?}"));
                        }
                        Err(_) => rec.skip("hetero segment table lacks a group"),
                    }
                }
                let dup = vec![n[0], n[1], n[0]];
                let r = PcSaftParameters::from_json_segments(&dup, sub.clone(), seg.clone(), None, IdentifierOption::Name);
                rec.require("rejects_duplicate", "from_json_segments", r.is_err(), || format!("from_json_segments({dup:?}) returned Ok with {} components", r.as_ref().map(|p| p.records().0.len()).unwrap_or(0)));
                let miss = vec![n[0], "no such substance (verif)"];
                rec.require("rejects_missing", "from_json_segments", PcSaftParameters::from_json_segments(&miss, sub.clone(), seg.clone(), None, IdentifierOption::Name).is_err(), || "missing substance accepted".into());
                let rh = GcPcSaftEosParameters::from_json_segments(&dup, sub.clone(), pfile("pcsaft/sauer2014_hetero.json"), None, IdentifierOption::Name);
                rec.require("rejects_duplicate", "hetero_from_json_segments", rh.is_err(), || format!("ParameterHetero::from_json_segments({dup:?}) returned Ok"));
            }),
        ));
    }
    // binary k_ij averaging from segment k_ij (rehner2023): reference = sum n1 n2 k / sum n1 n2, either orientation, default 0
    let names: Vec<String> = subs.iter().filter_map(|c| c.identifier.name.clone()).collect();
    let stride = tier.pick(97, 7);
    let mut k = 0;
    for a in 0..names.len() {
        for b in (a + 1)..names.len() {
            k += 1;
            if k % stride != 0 {
                continue;
            }
            let (ca, cb) = (subs[a].clone(), subs[b].clone());
            let (rehner, rehner_bin) = (rehner.clone(), rehner_bin.clone());
            jobs.push((
                format!("gc_kij|{}|{}", names[a], names[b]),
                Box::new(move |rec: &mut Rec| {
                    let p = PcSaftParameters::from_segments(vec![ca.clone(), cb.clone()], rehner.to_vec(), Some(rehner_bin.to_vec()));
                    let pswap = PcSaftParameters::from_segments(vec![cb.clone(), ca.clone()], rehner.to_vec(), Some(rehner_bin.to_vec()));
                    let (Ok(p), Ok(pswap)) = (p, pswap) else {
                        rec.skip("rehner2023 table lacks a group");
                        return;
                    };
                    let count = |c: &ChemicalRecord| {
                        let mut m: BTreeMap<String, f64> = BTreeMap::new();
                        for s in &c.segments {
                            *m.entry(s.clone()).or_insert(0.0) += 1.0;
                        }
                        m
                    };
                    let (na, nb) = (count(&ca), count(&cb));
                    let (mut num, mut den) = (0.0, 0.0);
                    for (s1, n1) in &na {
                        for (s2, n2) in &nb {
                            let kk = rehner_bin.iter().find(|r| (&r.id1 == s1 && &r.id2 == s2) || (&r.id1 == s2 && &r.id2 == s1)).map(|r| r.model_record).unwrap_or(0.0);
                            num += kk * n1 * n2;
                            den += n1 * n2;
                        }
                    }
                    let want = num / den;
                    let got = p.records().1.map(|m| m[[0, 1]].k_ij).unwrap_or(0.0);
                    let got_t = p.records().1.map(|m| m[[1, 0]].k_ij).unwrap_or(0.0);
                    let got_s = pswap.records().1.map(|m| m[[0, 1]].k_ij).unwrap_or(0.0);
                    rec.check("kij_averaging", "", (got - want).abs() / (1e-12 * want.abs() + 1e-15), want != 0.0, || format!("k_ij from segments = {got}, count-weighted average = {want}"));
                    rec.check("kij_averaging", "symmetric", ((got - got_t).abs() + (got - got_s).abs()) / 1e-15, true, || format!("k_ij {got} vs transposed {got_t} vs swapped substances {got_s}"));
                }),
            ));
        }
    }
}

/// serialise and re-read every record of a pure file: the model behaves identically
fn serde_jobs<P>(tag: &'static str, rel: &'static str, build: fn(P) -> ResidualModel, tref: f64, stride: usize, jobs: &mut Vec<Job>)
where
    P: Parameter + 'static,
    P::Pure: Serialize + Send + Sync,
{
    let recs: Vec<PureRecord<P::Pure>> = serde_json::from_reader(std::fs::File::open(pfile(rel)).unwrap()).unwrap();
    for (k, r) in recs.into_iter().enumerate() {
        if k % stride != 0 {
            continue;
        }
        let name = r.identifier.name.clone().or(r.identifier.cas.clone()).unwrap_or_default();
        jobs.push((
            format!("serde|{tag}|{rel}|{name}"),
            Box::new(move |rec: &mut Rec| {
                let txt = serde_json::to_string(&r).unwrap();
                let r2: PureRecord<P::Pure> = match serde_json::from_str(&txt) {
                    Ok(v) => v,
                    Err(e) => {
                        rec.require("serde_round_trip", "parse", false, || format!("re-reading the serialised record fails: {e}: {txt}"));
                        return;
                    }
                };
                let txt2 = serde_json::to_string(&r2).unwrap();
                rec.require("serde_round_trip", "text", txt == txt2, || format!("second serialisation differs: {txt} vs {txt2}"));
                let (Ok(p1), Ok(p2)) = (P::new_pure(r.clone()), P::new_pure(r2)) else {
                    rec.require("serde_round_trip", "builds", false, || "record does not build parameters".into());
                    return;
                };
                let (e1, e2): (Arc<ResidualModel>, Arc<ResidualModel>) = (Arc::new(build(p1)), Arc::new(build(p2)));
                let x: Array1<f64> = arr1(&[1.0]);
                let rho = e1.max_density(Some(&Moles::from_reduced(x.clone()))).unwrap().to_reduced();
                for (tf, eta) in [(0.7, 0.7), (1.0, 0.2), (2.0, 1e-3)] {
                    let (a, b) = (props(&e1, tref * tf, 1.0 / (rho * eta), &x), props(&e2, tref * tf, 1.0 / (rho * eta), &x));
                    let same = a.iter().zip(b.iter()).all(|(u, v)| u.1.to_bits() == v.1.to_bits() || (u.1.is_nan() && v.1.is_nan()));
                    rec.require("serde_round_trip", &format!("behaviour|T={tf}"), same, || "model built from the re-read record is not bit-identical".into());
                }
            }),
        ));
    }
}

pub fn run(ctx: &mut Ctx) {
    let _ = std::fs::create_dir_all(SCRATCH);
    let tier = ctx.tier;
    let mut jobs: Vec<Job> = vec![];
    // ---- JSON construction
    json_jobs::<PcSaftParameters>("pcsaft_gross2002", "pcsaft/gross2002.json", None, 3, tier.pick(11, 1), &mut jobs);
    json_jobs::<PcSaftParameters>("pcsaft_gross2005_fit", "pcsaft/gross2005_fit.json", None, tier.pick(3, 4), 1, &mut jobs);
    json_jobs::<PcSaftParameters>("pcsaft_gross2005_lit", "pcsaft/gross2005_literature.json", None, 3, tier.pick(5, 1), &mut jobs);
    json_jobs::<SaftVRMieParameters>("saftvrmie_lafitte2013", "saftvrmie/lafitte2013.json", None, tier.pick(2, 3), tier.pick(3, 1), &mut jobs);
    json_jobs::<SaftVRQMieParameters>("saftvrqmie_aasen2019", "saftvrqmie/aasen2019.json", Some("saftvrqmie/aasen2020_binary.json"), tier.pick(3, 4), 1, &mut jobs);
    json_jobs::<ElectrolytePcSaftParameters>("epcsaft_held2014", "epcsaft/held2014_w_permittivity_added.json", Some("epcsaft/held2014_binary.json"), tier.pick(2, 3), tier.pick(3, 1), &mut jobs);
    // PC-SAFT with a binary file: the binary file of gross2002 refers to substances of gross2001 as well ->
    // a merged scratch pure file of both collections
    {
        let mut merged = read("pcsaft/gross2002.json");
        let braw = read("pcsaft/gross2002_binary.json");
        let g1 = read("pcsaft/gross2001.json");
        for r in g1 {
            let nm = r["identifier"]["name"].as_str().unwrap_or("");
            if braw.iter().any(|b| b["id1"]["name"].as_str() == Some(nm) || b["id2"]["name"].as_str() == Some(nm)) {
                merged.push(r);
            }
        }
        // keep only substances that occur in the binary file (plus two that do not, for the default)
        let keep: Vec<Value> = merged.iter().filter(|r| braw.iter().any(|b| b["id1"]["name"] == r["identifier"]["name"] || b["id2"]["name"] == r["identifier"]["name"])).cloned().chain(merged.iter().take(2).cloned()).collect();
        let mut uniq: Vec<Value> = vec![];
        for r in keep {
            if !uniq.iter().any(|u| u["identifier"]["name"] == r["identifier"]["name"]) {
                uniq.push(r);
            }
        }
        std::fs::write(format!("{SCRATCH}/pcsaft_merged.json"), serde_json::to_string(&uniq).unwrap()).unwrap();
        ctx.extra("pcsaft_binary_merged_pure_records", json!(uniq.len()));
        let rel: &'static str = Box::leak(format!("{SCRATCH}/pcsaft_merged.json").into_boxed_str());
        json_jobs::<PcSaftParameters>("pcsaft_merged_binary", rel, Some("pcsaft/gross2002_binary.json"), tier.pick(2, 3), tier.pick(3, 1), &mut jobs);
    }
    // ---- group contribution
    gc_jobs(tier, &mut jobs);
    // ---- serde round trip of every record
    let st = tier.pick(13, 1);
    for f in super::c15::PCSAFT_PURE {
        let rel: &'static str = Box::leak(format!("pcsaft/{f}.json").into_boxed_str());
        serde_jobs::<PcSaftParameters>("pcsaft", rel, |p| ResidualModel::PcSaft(PcSaft::new(Arc::new(p))), 500.0, st, &mut jobs);
    }
    serde_jobs::<SaftVRMieParameters>("saftvrmie", "saftvrmie/lafitte2013.json", |p| ResidualModel::SaftVRMie(SaftVRMie::new(Arc::new(p))), 400.0, 1, &mut jobs);
    for f in ["saftvrqmie/aasen2019.json", "saftvrqmie/aasen2019_fh2.json", "saftvrqmie/hammer2023.json"] {
        serde_jobs::<SaftVRQMieParameters>("saftvrqmie", f, |p| ResidualModel::SaftVRQMie(SaftVRQMie::new(Arc::new(p))), 40.0, 1, &mut jobs);
    }
    serde_jobs::<ElectrolytePcSaftParameters>("epcsaft", "epcsaft/held2014_w_permittivity_added.json", |p| ResidualModel::ElectrolytePcSaft(ElectrolytePcSaft::new(Arc::new(p))), 300.0, 1, &mut jobs);
    ctx.rule = format!("group contribution: from_segments succeeds exactly when the table has every group and at most one polar/associating group occurs (sauer2014 and rehner2023 homo tables), homo- and heterosegmented from_json_segments keep the query order; JSON construction: every ordered subset of substances (size <= 3-4{}) of gross2002, gross2005_fit, gross2005_literature, lafitte2013, aasen2019 (+binary), held2014 (+binary) x every identifier kind the records carry uniquely x file order {{original, reversed, rotated}} x binary file {{original, every record's id1/id2 swapped, reversed, none}}; duplicates / missing names rejected; query split across two files in every way. Group contribution: every chemical record of gc_substances.json vs a reference re-implementation of the combining rules (m, sigma, epsilon, M, mu, q, site counts), every order of its segment list with relabelled bonds (<= {} segments) for the homo- and heterosegmented model, count-weighted k_ij averaging of rehner2023 for substance pairs. Serde: every{} record of every pure file serialised, re-read and compared bit-for-bit in behaviour on 3 states. jobs = {}", if tier == Tier::Quick { ", every 3rd-11th subset of the larger files" } else { "" }, tier.pick(5, 8), if tier == Tier::Quick { " 13th PC-SAFT" } else { "" }, jobs.len());
    ctx.run(&jobs, |j| j.0.clone(), |j, rec| (j.1)(rec));
    ctx.assume("hash-map iteration order inside feos is randomised per process: oracles are order-free");
}
