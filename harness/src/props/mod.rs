use crate::engine::Ctx;
pub mod common;
pub mod c01;
pub mod c02;
pub mod c03;
pub mod c04;
pub mod c05;
pub mod c06;
pub mod c07;
pub mod mix;
pub mod c08;
pub mod c09;
pub mod c10;
pub mod c11;
pub mod c12;
pub mod c13;
pub mod c14;
pub mod c15;
pub mod c16;
pub mod c17;
pub mod c18;
pub mod c19;
pub mod c20;

pub fn lookup(id: &str) -> Option<(&'static str, fn(&mut Ctx))> {
    Some(match id {
        "C01" => ("C01", c01::run as fn(&mut Ctx)),
        "C02" => ("C02", c02::run as fn(&mut Ctx)),
        "C03" => ("C03", c03::run as fn(&mut Ctx)),
        "C04" => ("C04", c04::run as fn(&mut Ctx)),
        "C05" => ("C05", c05::run as fn(&mut Ctx)),
        "C06" => ("C06", c06::run as fn(&mut Ctx)),
        "C07" => ("C07", c07::run as fn(&mut Ctx)),
        "C08" => ("C08", c08::run as fn(&mut Ctx)),
        "C09" => ("C09", c09::run as fn(&mut Ctx)),
        "C10" => ("C10", c10::run as fn(&mut Ctx)),
        "C11" => ("C11", c11::run as fn(&mut Ctx)),
        "C12" => ("C12", c12::run as fn(&mut Ctx)),
        "C13" => ("C13", c13::run as fn(&mut Ctx)),
        "C14" => ("C14", c14::run as fn(&mut Ctx)),
        "C15" => ("C15", c15::run as fn(&mut Ctx)),
        "C16" => ("C16", c16::run as fn(&mut Ctx)),
        "C17" => ("C17", c17::run as fn(&mut Ctx)),
        "C18" => ("C18", c18::run as fn(&mut Ctx)),
        "C19" => ("C19", c19::run as fn(&mut Ctx)),
        "C20" => ("C20", c20::run as fn(&mut Ctx)),
        _ => return None,
    })
}
