//! C02 — Euler / Gibbs-Duhem / extensivity (DESIGN §5 C02)
use super::common::*;
use crate::engine::{Ctx, Rec};
use crate::zoo;
use feos_core::{Contributions, ReferenceSystem};
use ndarray::Array1;
use serde_json::json;

const TOL: f64 = 1e-10;
/// round-off of the residual part is relative to the *total* (ideal + residual) property: the
/// model evaluates ln(V/(V-bN)) and the like, whose absolute error is 1e-16 of an O(1) number.
/// Calibration: worst observed on the unchanged tree 1.3e-16 (PR at the Boyle temperature).
const TOL_IDEAL: f64 = 1e-12;

struct Ident {
    name: &'static str,
    sub: String,
    lhs: f64,
    rhs: f64,
    scale: f64,
    /// magnitude of the same quantity for the ideal gas (round-off is relative to the total property)
    ideal: f64,
}

fn identities(s: &St, x: &Array1<f64>) -> Vec<Ident> {
    let n = x.len();
    let v0 = s.volume.to_reduced();
    let nn = s.moles.to_reduced();
    let tt = s.temperature.to_reduced();
    let ntot = nn.sum();
    let a = s.residual_helmholtz_energy().to_reduced();
    let p = s.pressure(Contributions::Residual).to_reduced();
    let mu = s.residual_chemical_potential().to_reduced();
    let dpdv = s.dp_dv(Contributions::Residual).to_reduced();
    let dpdn = s.dp_dni(Contributions::Residual).to_reduced();
    let dmudn = s.dmu_dni(Contributions::Residual).to_reduced();
    let mut out = vec![];
    let sabs = |a: &Array1<f64>| a.iter().map(|v| v.abs()).sum::<f64>();
    out.push(Ident { name: "euler", sub: String::new(), lhs: a, rhs: -p * v0 + (&mu * &nn).sum(), scale: a.abs() + (p * v0).abs() + sabs(&(&mu * &nn)), ideal: ntot * tt });
    out.push(Ident { name: "gd_p", sub: String::new(), lhs: v0 * dpdv + (&dpdn * &nn).sum(), rhs: 0.0, scale: (v0 * dpdv).abs() + sabs(&(&dpdn * &nn)), ideal: ntot * tt / v0 });
    for i in 0..n {
        let l: f64 = (0..n).map(|j| nn[j] * dmudn[[i, j]]).sum();
        let sc: f64 = (0..n).map(|j| (nn[j] * dmudn[[i, j]]).abs()).sum::<f64>() + (v0 * dpdn[i]).abs();
        out.push(Ident { name: "gd_mu", sub: format!("i={i}"), lhs: l, rhs: v0 * dpdn[i], scale: sc, ideal: tt });
        for j in (i + 1)..n {
            out.push(Ident { name: "sym", sub: format!("{i},{j}"), lhs: dmudn[[i, j]], rhs: dmudn[[j, i]], scale: dmudn[[i, j]].abs() + dmudn[[j, i]].abs(), ideal: tt / ntot });
        }
    }
    // sum_i N_i dlnphi_i/dN_j = 0 at constant T, p
    let dlnphi = s.dln_phi_dnj().to_reduced();
    let dpdn_tot = s.dp_dni(Contributions::Total).to_reduced();
    let dpdv_tot = s.dp_dv(Contributions::Total).to_reduced();

    for j in 0..n {
        let l: f64 = (0..n).map(|i| nn[i] * dlnphi[[i, j]]).sum();
        // scale: magnitudes of the pieces dln_phi_dnj is assembled from
        let sc: f64 = (0..n).map(|i| nn[i] * ((dmudn[[i, j]].abs() + (dpdn_tot[i] * dpdn_tot[j] / dpdv_tot).abs()) / tt + 1.0 / ntot)).sum::<f64>();
        out.push(Ident { name: "gd_lnphi", sub: format!("j={j}"), lhs: l, rhs: 0.0, scale: sc.max(1e-300), ideal: 1.0 });
    }
    // partial molar volumes sum to the molar volume
    let vi = s.partial_molar_volume().to_reduced();
    let vm = v0 / nn.sum();
    out.push(Ident { name: "pm_volume", sub: String::new(), lhs: (&vi * &s.molefracs).sum(), rhs: vm, scale: sabs(&(&vi * &s.molefracs)) + vm, ideal: vm });
    out
}

fn intensive(s: &St) -> Vec<(&'static str, f64, f64)> {
    let t = s.temperature.to_reduced();
    let rho = s.density.to_reduced();
    // (name, value, ideal-gas magnitude of the same quantity)
    let mut v = vec![
        ("p", s.pressure(Contributions::Residual).to_reduced(), rho * t),
        ("a", s.residual_molar_helmholtz_energy().to_reduced(), t),
        ("s", s.residual_molar_entropy().to_reduced(), 1.0),
        ("Z", s.compressibility(Contributions::Total), 1.0),
        ("dp_drho", s.dp_drho(Contributions::Total).to_reduced(), t),
        ("dp_dt", s.dp_dt(Contributions::Residual).to_reduced(), rho),
        ("cv_res", s.residual_molar_isochoric_heat_capacity().to_reduced(), 1.0),
        ("cp_res", s.residual_molar_isobaric_heat_capacity().to_reduced(), 1.0),
        ("h_res", s.residual_molar_enthalpy().to_reduced(), t),
        ("g_res", s.residual_molar_gibbs_energy().to_reduced(), t),
        ("kappa_T", s.isothermal_compressibility().to_reduced(), 1.0 / (rho * t)),
    ];
    let mu = s.residual_chemical_potential().to_reduced();
    let lp = s.ln_phi();
    let vi = s.partial_molar_volume().to_reduced();
    for i in 0..mu.len() {
        v.push(("mu", mu[i], t));
        v.push(("lnphi", lp[i], 1.0));
        v.push(("v_i", vi[i], 1.0 / rho));
    }
    v
}

fn case(c: &StateCase, rec: &mut Rec) {
    let eos = &c.entry.eos;
    let (t, v0) = (c.t(), c.v());
    let s = c.state();
    let a = s.residual_helmholtz_energy().to_reduced();
    if !a.is_finite() {
        // outside the model's domain of definition (e.g. permittivity correlation of ePC-SAFT far
        // above the critical temperature of water): nothing to compare, counted per model
        rec.skip(&format!("A_res not finite: {}", c.entry.id));
        return;
    }
    let ids = identities(&s, &c.x);
    for (k, id) in ids.iter().enumerate() {
        let err = (id.lhs - id.rhs).abs();
        let mut lim = TOL * id.scale + TOL_IDEAL * id.ideal;
        if !(err <= lim) && err.is_finite() {
            // measure evaluation noise of this identity residual (cancellation at low density)
            let q = |v: f64| {
                let s = mk(eos, t, v, &c.x);
                let i = &identities(&s, &c.x)[k];
                (i.lhs - i.rhs) / i.scale.max(1e-300)
            };
            let nu = noise(&q, v0, 1.0);
            lim = (TOL + 100.0 * nu) * id.scale + TOL_IDEAL * id.ideal;
            rec.count("noise_measured");
        }
        let nontrivial = id.scale > 1e-290 && (id.lhs.abs() > 1e-9 * id.scale || id.rhs.abs() > 1e-9 * id.scale || id.name == "gd_p" || id.name == "gd_lnphi");
        rec.check(id.name, &id.sub, err / lim.max(1e-300), nontrivial, || format!("lhs={:e} rhs={:e} scale={:e} limit={:e}", id.lhs, id.rhs, id.scale, lim));
    }
    // extensivity: intensive properties independent of the amount
    let base = intensive(&s);
    let z = s.compressibility(Contributions::Total);
    for lam in [1e-3, 1e3] {
        let s2 = mk(eos, t, v0 * lam, &(&c.x * lam));
        let other = intensive(&s2);
        for (k, ((name, b, ideal), (_, o, _))) in base.iter().zip(other.iter()).enumerate() {
            if !(z > 0.0) && (*name == "lnphi" || *name == "g_res") {
                // ln Z of a state with non-positive pressure is undefined: nothing to compare
                rec.skip("lnZ undefined (p<=0)");
                continue;
            }
            let sc = b.abs().max(o.abs());
            let err = (b - o).abs();
            let mut lim = 1e-9 * sc + TOL_IDEAL * ideal;
            if !(err <= lim) && err.is_finite() {
                let q = |v: f64| intensive(&mk(eos, t, v, &c.x))[k].1;
                let nu = noise(&q, v0, sc);
                lim = (1e-9 + 100.0 * nu) * sc + TOL_IDEAL * ideal;
                rec.count("noise_measured");
            }
            rec.check("intensive", &format!("{name}{k}|lam={lam}"), err / lim.max(1e-300), sc > 0.0, || format!("{name}: {b:e} (lambda=1) vs {o:e} (lambda={lam})"));
        }
        // extensive: A scales with lambda
        let a2 = s2.residual_helmholtz_energy().to_reduced();
        let err = (a2 - lam * a).abs();
        let ideal = lam * t * c.x.sum();
        let mut lim = 1e-9 * (lam * a).abs() + TOL_IDEAL * ideal;
        if !(err <= lim) && err.is_finite() {
            let q = |v: f64| mk(eos, t, v, &c.x).residual_helmholtz_energy().to_reduced();
            lim = (1e-9 + 100.0 * noise(&q, v0, a)) * (lam * a).abs() + TOL_IDEAL * ideal;
        }
        rec.check("extensive", &format!("A|lam={lam}"), err / lim.max(1e-300), a != 0.0, || format!("A(lambda)={a2:e} vs lambda*A={:e}", lam * a));
    }
    rec.sample(json!({"case": c.key(), "A_res": a, "identities": ids.len()}));
}

/// Partial molar entropy / enthalpy sum rules need an ideal-gas model.
fn case_full(c: &(StateCase, zoo::FullModel), rec: &mut Rec) {
    use feos_core::State;
    use quantity::*;
    let (c, eos) = c;
    let s = State::new_nvt(eos, Temperature::from_reduced(c.t()), Volume::from_reduced(c.v()), &Moles::from_reduced(c.x.clone())).unwrap();
    let si = s.partial_molar_entropy().to_reduced();
    let hi = s.partial_molar_enthalpy().to_reduced();
    let sm = s.molar_entropy(Contributions::Total).to_reduced();
    let hm = s.molar_enthalpy(Contributions::Total).to_reduced();
    let x = &s.molefracs;
    let sabs = |a: &Array1<f64>| a.iter().map(|v| v.abs()).sum::<f64>();
    let l = (&si * x).sum();
    let sc = sabs(&(&si * x)) + sm.abs();
    rec.check("pm_entropy", "", (l - sm).abs() / (1e-9 * sc), true, || format!("sum x_i s_i = {l:e} vs s = {sm:e}"));
    let l = (&hi * x).sum();
    let sc = sabs(&(&hi * x)) + hm.abs();
    rec.check("pm_enthalpy", "", (l - hm).abs() / (1e-9 * sc), true, || format!("sum x_i h_i = {l:e} vs h = {hm:e}"));
}

pub fn run(ctx: &mut Ctx) {
    let z = zoo::zoo(ctx.tier);
    let cases = state_lattice(&z, ctx.tier);
    ctx.rule = format!(
        "full product zoo({}) x compositions x T/Tref {:?} x eta/eta_max {:?} x lambda {{1e-3,1,1e3}}; oracle: Euler, Gibbs-Duhem (p, mu_i, ln phi), symmetry of dmu_dni, partial molar sums, intensive getters equal across lambda; tolerance 1e-10*sum|terms| (+100*measured noise when exceeded); non-trivial = identity sides not both below 1e-9 of the scale; distinct = distinct (case, identity) keys",
        z.len(),
        t_factors(ctx.tier),
        eta_factors(ctx.tier)
    );
    ctx.extra("models", json!(z.iter().map(|e| e.id.clone()).collect::<Vec<_>>()));
    ctx.run(&cases, |c| c.key(), case);
    // models with an ideal-gas part
    let recs = zoo::dippr_records();
    let full: Vec<(StateCase, zoo::FullModel)> = cases.iter().filter_map(|c| zoo::with_ideal_gas(&c.entry, &recs).map(|f| (StateCase { entry: c.entry.clone(), x: c.x.clone(), tf: c.tf, eta: c.eta, t_abs: c.t_abs }, f))).collect();
    ctx.run(&full, |c| format!("full|{}", c.0.key()), case_full);
    ctx.assume("continuous coordinates (T, rho, x) covered on the stated lattice only");
}
