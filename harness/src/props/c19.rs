//! C19 — DFT results obey the Gibbs adsorption relation and their reported derivatives
use crate::engine::{Ctx, Rec, Tier};
use crate::zoo;
use feos::pcsaft::PcSaftFunctional;
use feos::pets::{PetsFunctional, PetsParameters, PetsRecord};
use feos::gc_pcsaft::GcPcSaftFunctional;
use feos_core::parameter::{Identifier, Parameter, PureRecord};
use feos_core::{Contributions, DensityInitialization, PhaseEquilibrium, ReferenceSystem, Residual, State};
use feos_dft::adsorption::{ExternalPotential, FluidParameters, Pore1D, PoreProfile1D, PoreSpecification};
use feos_dft::interface::PlanarInterface;
use feos_dft::{DFTSolver, Geometry, HelmholtzEnergyFunctional, PdgtFunctionalProperties};
use ndarray::{arr1, Array1};
use quantity::*;
use serde_json::json;
use std::sync::Arc;

#[derive(Clone)]
enum Fl {
    Pc(Arc<PcSaftFunctional>),
    Pets(Arc<PetsFunctional>),
    Gc(Arc<GcPcSaftFunctional>),
}

#[derive(Clone)]
struct PoreCase {
    id: String,
    eos: Fl,
    geo: Geometry,
    gname: &'static str,
    size: f64,
    pot: &'static str,
    tr: f64,
    pfrac: f64,
    x: Vec<f64>,
    n: usize,
}

fn potential(name: &str) -> ExternalPotential {
    match name {
        "lj93" => ExternalPotential::LJ93 { sigma_ss: 3.0, epsilon_k_ss: 100.0, rho_s: 0.08 },
        "steele" => ExternalPotential::Steele { sigma_ss: 3.4, epsilon_k_ss: 28.0, rho_s: 0.114, xi: None },
        "simplelj93" => ExternalPotential::SimpleLJ93 { sigma_ss: 3.0, epsilon_k_ss: 300.0 },
        _ => ExternalPotential::HardWall { sigma_ss: 3.0 },
    }
}

fn solver() -> DFTSolver {
    DFTSolver::new(None).picard_iteration(None, Some(200), Some(1e-6), None).anderson_mixing(None, Some(500), Some(1e-12), None, None)
}

fn mu_of<F: Residual>(b: &State<F>) -> f64 {
    b.residual_chemical_potential().to_reduced()[0] + b.temperature.to_reduced() * b.density.to_reduced().ln()
}

fn pore_case(c: &PoreCase, rec: &mut Rec) {
    match &c.eos {
        Fl::Pc(e) => pore_case_g(c, e, rec),
        Fl::Pets(e) => pore_case_g(c, e, rec),
        Fl::Gc(e) => pore_case_g(c, e, rec),
    }
}

fn pore_case_g<F: HelmholtzEnergyFunctional + FluidParameters>(c: &PoreCase, eos: &Arc<F>, rec: &mut Rec) {
    let nc = c.x.len();
    let x0 = arr1(&c.x);
    let Ok(cp) = State::critical_point(eos, Some(&(x0.clone() * MOL)), None, Default::default()) else {
        rec.skip("no critical point for the bulk fluid");
        return;
    };
    let tc = cp.temperature;
    let t = tc * c.tr;
    // bulk vapour: a fraction of the saturation (dew) pressure below Tc, of the critical pressure above
    let pc = cp.pressure(Contributions::Total);
    let pref = if c.tr < 1.0 {
        if nc == 1 {
            PhaseEquilibrium::pure(eos, t, None, Default::default()).map(|v| v.vapor().pressure(Contributions::Total)).unwrap_or(pc)
        } else {
            PhaseEquilibrium::dew_point(eos, t, &x0, None, None, Default::default()).map(|v| v.vapor().pressure(Contributions::Total)).unwrap_or(pc)
        }
    } else {
        pc
    };
    let p0 = pref * c.pfrac;
    let pore = Pore1D::new(c.geo, c.size * ANGSTROM, potential(c.pot), Some(c.n), None);
    let sv = solver();
    struct Pt {
        n: Vec<f64>,
        om: f64,
        mu: Vec<f64>,
    }
    let solve = |tt: Temperature, p: Pressure, x: &Array1<f64>| -> Option<(PoreProfile1D<F>, State<F>)> {
        let bulk = State::new_npt(eos, tt, p, &(x.clone() * MOL), DensityInitialization::Vapor).ok()?;
        let pp = pore.initialize(&bulk, None, None).ok()?.solve(Some(&sv)).ok()?;
        Some((pp, bulk))
    };
    let point = |tt: Temperature, p: Pressure, x: &Array1<f64>| -> Option<Pt> {
        let (pp, b) = solve(tt, p, x)?;
        let mr = b.residual_chemical_potential().to_reduced();
        let rho = b.partial_density.to_reduced();
        let tr = tt.to_reduced();
        Some(Pt { n: pp.profile.moles().to_reduced().to_vec(), om: pp.grand_potential?.to_reduced(), mu: (0..x.len()).map(|i| mr[i] + tr * rho[i].ln()).collect() })
    };
    let Some((pp, _bulk)) = solve(t, p0, &x0) else {
        rec.skip("pore does not converge at the base state (conditional)");
        return;
    };
    let n0 = pp.profile.moles().to_reduced().to_vec();
    let ntot: f64 = n0.iter().sum();
    let pr = p0.to_reduced();
    let tk = t.to_reduced();
    // Richardson derivative of every observable along one direction; returns (value, error estimate)
    let rich4 = |pts: &[Pt; 4], h: f64, get: &dyn Fn(&Pt) -> f64| -> (f64, f64) {
        let d1 = (get(&pts[0]) - get(&pts[1])) / (2.0 * h);
        let d2 = (get(&pts[2]) - get(&pts[3])) / (4.0 * h);
        ((4.0 * d1 - d2) / 3.0, (d1 - d2).abs())
    };
    let along = |mk: &dyn Fn(f64) -> Option<Pt>, h: f64| -> Option<[Pt; 4]> { Some([mk(h)?, mk(-h)?, mk(2.0 * h)?, mk(-2.0 * h)?]) };
    let dn_dmu = pp.profile.dn_dmu().ok().map(|v| v.to_reduced());
    // the spherical transform is first-order accurate in the grid spacing for this relation (4e-3 at 256 points)
    let floor = match c.gname {
        "slit" => 1e-5,
        _ => 2e-2 * 512.0 / c.n as f64,
    };
    let mut dirs: Vec<(&str, f64, Box<dyn Fn(f64) -> Option<Pt> + '_>)> = vec![("p", 1e-3 * pr, Box::new(|h: f64| point(t, Pressure::from_reduced(pr + h), &x0)))];
    if nc == 2 {
        dirs.push(("x", 1e-3 * c.x[0].min(c.x[1]), Box::new(|h: f64| point(t, p0, &arr1(&[c.x[0] + h, c.x[1] - h])))));
    }
    for (dname, h, mk) in &dirs {
        let Some(pts) = along(&**mk, *h) else {
            rec.skip("neighbouring pore state does not converge");
            continue;
        };
        // Gibbs adsorption: dOmega = - sum_i N_i dmu_i
        let (dom, e_om) = rich4(&pts, *h, &|q| q.om);
        let dmu: Vec<(f64, f64)> = (0..nc).map(|i| rich4(&pts, *h, &|q| q.mu[i])).collect();
        let rhs: f64 = (0..nc).map(|i| n0[i] * dmu[i].0).sum();
        let scale: f64 = (0..nc).map(|i| (n0[i] * dmu[i].0).abs()).sum();
        let est = e_om + (0..nc).map(|i| n0[i].abs() * dmu[i].1).sum::<f64>();
        rec.check("gibbs_adsorption", dname, (dom + rhs).abs() / (50.0 * est + floor * scale), true, || format!("dOmega/d{dname} = {dom:e}, -sum N_i dmu_i/d{dname} = {:e} (relative deviation {:e})", -rhs, (dom + rhs).abs() / scale));
        // dN_i = sum_j (dn_dmu)_ij dmu_j
        if let Some(a) = &dn_dmu {
            for i in 0..nc {
                let (dn, e_n) = rich4(&pts, *h, &|q| q.n[i]);
                // dn_dmu[[k, i]] = dN_i / dmu_k
                let pred: f64 = (0..nc).map(|j| a[[j, i]] * dmu[j].0).sum();
                let sc: f64 = (0..nc).map(|j| (a[[j, i]] * dmu[j].0).abs()).sum();
                let e2: f64 = (0..nc).map(|j| a[[j, i]].abs() * dmu[j].1).sum();
                rec.check("dn_dmu", &format!("{dname}|{i}"), (dn - pred).abs() / (50.0 * (e_n + e2) + 1e-4 * sc), true, || format!("dN_{i}/d{dname} = {dn:e} by re-solving, dn_dmu predicts {pred:e}"));
            }
        }
        if *dname == "p" {
            if let Ok(v) = pp.profile.dn_dp() {
                let v = v.to_reduced();
                for i in 0..nc {
                    let (dn, e_n) = rich4(&pts, *h, &|q| q.n[i]);
                    rec.check("dn_dp", &format!("{i}"), (v[i] - dn).abs() / (50.0 * e_n + 1e-4 * dn.abs() + 1e-7 * ntot / pr), true, || format!("dn_dp[{i}] = {:e}, re-solving gives {dn:e}", v[i]));
                }
            }
        }
    }
    // dN/dT at constant p, x
    let ht = 1e-4 * tk;
    if let Some(pts) = along(&|h| point(Temperature::from_reduced(tk + h), p0, &x0), ht) {
        if let Ok(v) = pp.profile.dn_dt() {
            let v = v.to_reduced();
            for i in 0..nc {
                let (dn, e_n) = rich4(&pts, ht, &|q| q.n[i]);
                rec.check("dn_dt", &format!("{i}"), (v[i] - dn).abs() / (50.0 * e_n + 1e-4 * dn.abs() + 1e-7 * ntot / tk), true, || format!("dn_dt[{i}] = {:e}, re-solving gives {dn:e}", v[i]));
            }
            // enthalpy of adsorption: dn_dmu . h = -T dn_dt, and the total is the mole-fraction average
            if let (Ok(hp), Some(a), Ok(htot)) = (pp.partial_molar_enthalpy_of_adsorption(), &dn_dmu, pp.enthalpy_of_adsorption()) {
                let hp = hp.to_reduced();
                for i in 0..nc {
                    let lhs: f64 = (0..nc).map(|j| a[[i, j]] * hp[j]).sum();
                    let sc: f64 = (0..nc).map(|j| (a[[i, j]] * hp[j]).abs()).sum::<f64>() + (tk * v[i]).abs();
                    rec.check("enthalpy_of_adsorption", &format!("{i}"), (lhs + tk * v[i]).abs() / (1e-8 * sc), true, || format!("(dn_dmu . h)[{i}] = {lhs:e}, -T dn_dt[{i}] = {:e}", -tk * v[i]));
                }
                let avg: f64 = (0..nc).map(|i| c.x[i] * hp[i]).sum();
                rec.check("enthalpy_of_adsorption", "total", (htot.to_reduced() - avg).abs() / (1e-10 * avg.abs().max(tk)), true, || format!("enthalpy_of_adsorption = {:e}, sum x_i h_i = {avg:e}", htot.to_reduced()));
            }
        }
    } else {
        rec.skip("neighbouring pore state (temperature) does not converge");
    }
    // Henry limit: N_i / (x_i p) -> henry coefficient as p -> 0 (only for spherical / heterosegmented molecules)
    if eos.m().iter().all(|m| *m == 1.0) {
        let kh = pp.henry_coefficients().to_reduced();
        let ratio = |f: f64| solve(t, p0 * f, &x0).map(|q| q.0.profile.moles().to_reduced().to_vec());
        if let (Some(r1), Some(r2)) = (ratio(1e-4), ratio(2e-4)) {
            for i in 0..nc {
                let (a, b) = (r1[i] / (pr * 1e-4 * c.x[i]), r2[i] / (pr * 2e-4 * c.x[i]));
                let lim = 2.0 * a - b;
                rec.check("henry_limit", &format!("{i}"), (lim - kh[i]).abs() / (50.0 * (a - b).abs() + 1e-3 * kh[i].abs()), true, || format!("lim N_{i}/(x_{i} p) = {lim:e}, henry_coefficients = {:e}", kh[i]));
            }
            // temperature dependence: K_H = Z(T)/(RT); h_ig = RT (1 - T dlnZ/dT)
            let hig = pp.ideal_gas_enthalpy_of_adsorption().to_reduced();
            let kh_t = |h: f64| solve(Temperature::from_reduced(tk + h), p0, &x0).map(|q| q.0.henry_coefficients().to_reduced());
            if let (Some(ka), Some(kb), Some(kc), Some(kd)) = (kh_t(ht), kh_t(-ht), kh_t(2.0 * ht), kh_t(-2.0 * ht)) {
                for i in 0..nc {
                    let lz = |k: &Array1<f64>, h: f64| (k[i] * (tk + h)).ln();
                    let d1 = (lz(&ka, ht) - lz(&kb, -ht)) / (2.0 * ht);
                    let d2 = (lz(&kc, 2.0 * ht) - lz(&kd, -2.0 * ht)) / (4.0 * ht);
                    let dlnz = (4.0 * d1 - d2) / 3.0;
                    let expect = tk * (1.0 - tk * dlnz);
                    rec.check("henry_temperature_dependence", &format!("{i}"), (hig[i] - expect).abs() / (50.0 * tk * tk * (d1 - d2).abs() + 1e-6 * tk), true, || format!("ideal_gas_enthalpy_of_adsorption = {:e}, from the temperature difference of the Henry coefficient {expect:e}", hig[i]));
                }
            }
        }
    }
    rec.sample(json!({"case": c.id, "N": n0}));
}

/// adsorption-isotherm drivers: every point of an isotherm equals the stand-alone pore calculation at that pressure, the
/// result does not depend on how many points the isotherm has (nested grids), adsorption and desorption coincide where
/// there is no hysteresis (supercritical temperature), N increases and Omega decreases with the bulk pressure
fn isotherm_case(c: &PoreCase, rec: &mut Rec) {
    match &c.eos {
        Fl::Pc(e) => isotherm_case_g(c, e, rec),
        Fl::Pets(e) => isotherm_case_g(c, e, rec),
        Fl::Gc(e) => isotherm_case_g(c, e, rec),
    }
}

fn isotherm_case_g<F: HelmholtzEnergyFunctional + FluidParameters>(c: &PoreCase, eos: &Arc<F>, rec: &mut Rec) {
    use feos_dft::adsorption::Adsorption1D;
    let x0 = arr1(&c.x);
    let Ok(cp) = State::critical_point(eos, Some(&(x0.clone() * MOL)), None, Default::default()) else { return };
    let t = cp.temperature * c.tr;
    let pc = cp.pressure(Contributions::Total);
    let pref = if c.tr < 1.0 { PhaseEquilibrium::pure(eos, t, None, Default::default()).map(|v| v.vapor().pressure(Contributions::Total)).unwrap_or(pc) } else { pc };
    // below capillary condensation: up to pfrac of the saturation (critical) pressure
    let pmax = pref * c.pfrac;
    let pore = Pore1D::new(c.geo, c.size * ANGSTROM, potential(c.pot), Some(c.n), None);
    let sv = solver();
    let molefracs = if c.x.len() > 1 { Some(&x0) } else { None };
    let mut by_n: Vec<(usize, Vec<f64>, Vec<f64>, Vec<f64>)> = vec![];
    for npts in [3usize, 5, 9] {
        let ps: Vec<f64> = (0..npts).map(|k| pmax.to_reduced() * (0.1 + 0.9 * k as f64 / (npts - 1) as f64)).collect();
        let grid = Pressure::from_reduced(Array1::from_vec(ps.clone()));
        let ads = Adsorption1D::adsorption_isotherm(eos, t, &grid, &pore, molefracs, Some(&sv));
        let des = Adsorption1D::desorption_isotherm(eos, t, &grid, &pore, molefracs, Some(&sv));
        let (Ok(ads), Ok(des)) = (ads, des) else {
            rec.skip("isotherm driver fails (conditional)");
            continue;
        };
        let sub = format!("n={npts}");
        rec.require("isotherm_length", &sub, ads.profiles.len() == npts && des.profiles.len() == npts, || format!("{} / {} profiles for {npts} pressures", ads.profiles.len(), des.profiles.len()));
        if ads.profiles.iter().chain(des.profiles.iter()).any(|p| p.is_err()) {
            rec.skip("a point of the isotherm does not converge (conditional)");
            continue;
        }
        let pa = ads.pressure().to_reduced();
        let pd = des.pressure().to_reduced();
        let na = ads.total_adsorption().to_reduced();
        let nd = des.total_adsorption().to_reduced();
        let oa = ads.grand_potential().to_reduced();
        for k in 0..npts {
            rec.check("isotherm_pressure_grid", &format!("{sub}|{k}"), ((pa[k] - ps[k]) / ps[k]).abs().max(((pd[k] - ps[k]) / ps[k]).abs()) / 1e-9, true, || format!("point {k}: requested {:e}, adsorption branch {:e}, desorption branch {:e}", ps[k], pa[k], pd[k]));
            // stand-alone calculation at this pressure
            let alone = State::new_npt(eos, t, Pressure::from_reduced(ps[k]), &(x0.clone() * MOL), DensityInitialization::Vapor).ok().and_then(|b| pore.initialize(&b, None, None).ok()).and_then(|p| p.solve(Some(&sv)).ok());
            if let Some(al) = alone {
                let n1 = al.profile.moles().to_reduced().sum();
                rec.check("isotherm_point=stand_alone", &format!("{sub}|{k}"), ((na[k] - n1) / n1).abs() / 1e-6, true, || format!("point {k} of the adsorption isotherm holds {:e}, the stand-alone pore at the same pressure {n1:e}", na[k]));
            }
            if c.tr >= 1.0 {
                rec.check("adsorption=desorption", &format!("{sub}|{k}"), ((na[k] - nd[k]) / na[k]).abs() / 1e-6, true, || format!("supercritical isotherm: adsorption branch {:e}, desorption branch {:e}", na[k], nd[k]));
            }
            if k > 0 {
                rec.require("isotherm_monotone", &format!("{sub}|{k}"), na[k] > na[k - 1] && oa[k] < oa[k - 1], || format!("N: {:e} -> {:e}, Omega: {:e} -> {:e} from point {} to {k}", na[k - 1], na[k], oa[k - 1], oa[k], k - 1));
            }
        }
        by_n.push((npts, ps, na.to_vec(), oa.to_vec()));
    }
    // nested grids share pressures: same values whatever the history of the continuation
    for a in 0..by_n.len() {
        for b in a + 1..by_n.len() {
            for (i, pi) in by_n[a].1.iter().enumerate() {
                for (j, pj) in by_n[b].1.iter().enumerate() {
                    if ((pi - pj) / pi).abs() < 1e-12 {
                        let (n1, n2) = (by_n[a].2[i], by_n[b].2[j]);
                        rec.check("isotherm_history_independent", &format!("n={}|{i}|n={}|{j}", by_n[a].0, by_n[b].0), ((n1 - n2) / n1).abs() / 1e-6, true, || format!("same pressure on the {}- and {}-point isotherm: {n1:e} vs {n2:e}", by_n[a].0, by_n[b].0));
                    }
                }
            }
        }
    }
}

struct PlanarCase {
    id: String,
    eos: Fl,
    trs: Vec<f64>,
    ls: Vec<f64>,
    ns: Vec<usize>,
}

fn planar_case(c: &PlanarCase, rec: &mut Rec) {
    match &c.eos {
        Fl::Pc(e) => planar_case_g(c, e, rec),
        Fl::Pets(e) => planar_case_g(c, e, rec),
        Fl::Gc(e) => planar_case_g(c, e, rec),
    }
}

fn planar_case_g<F: HelmholtzEnergyFunctional + PdgtFunctionalProperties>(c: &PlanarCase, eos: &Arc<F>, rec: &mut Rec) {
    let Ok(cp) = State::critical_point(eos, None, None, Default::default()) else { return };
    let tc = cp.temperature;
    let mut last = f64::INFINITY;
    let mut last_tr = 0.0;
    for &tr in &c.trs {
        let Ok(vle) = PhaseEquilibrium::pure(eos, tc * tr, None, Default::default()) else {
            rec.skip("no pure-component VLE at this temperature (conditional)");
            continue;
        };
        let mut gam: Vec<(f64, f64, usize)> = vec![];
        for &l in &c.ls {
            for &n in &c.ns {
                // at least 3 points per Angstrom are needed to resolve the hard-sphere weight functions at all
                if (n as f64) < 2.0 * l {
                    continue;
                }
                match PlanarInterface::from_tanh(&vle, n, l * ANGSTROM, tc, false).solve(None) {
                    Ok(pi) => gam.push((pi.surface_tension.unwrap().to_reduced(), l, n)),
                    Err(_) => rec.skip("planar interface does not converge (conditional)"),
                }
            }
        }
        let (lmax, nmax) = (c.ls.iter().cloned().fold(0.0, f64::max), *c.ns.iter().max().unwrap());
        let Some(&(g_ref, _, _)) = gam.iter().find(|g| g.1 == lmax && g.2 == nmax) else {
            rec.skip("reference planar interface does not converge (conditional)");
            continue;
        };
        for (g, l, n) in &gam {
            // discretisation error is second order in the grid spacing (measured 2e-4 at 0.3 A); the finite box
            // matters once the interface width (diverging towards Tc) is comparable with L/2
            let dx = l / *n as f64;
            // (the tail of the profile is cut off by the box: exponentially small in L over the correlation length)
            let band = 1e-5 + 1e-3 * dx * dx + if tr > 0.9 { 2e-2 * (-(l - 60.0) / 12.0).exp() } else { 0.0 };
            rec.check("gamma_independent_of_box", &format!("Tr={tr}|L={l}|n={n}"), ((g - g_ref) / g_ref).abs() / band, true, || format!("surface tension {g:e} (L = {l}, n = {n}) vs {g_ref:e} (L = {lmax}, n = {nmax})"));
        }
        rec.require("gamma_decreases_with_T", &format!("Tr={tr}"), g_ref < last && g_ref > 0.0, || format!("surface tension {g_ref:e} at Tr = {tr}, {last:e} at Tr = {last_tr}"));
        last = g_ref;
        last_tr = tr;
        // pDGT estimate within a few percent
        // a panic inside solve_pdgt must not hide the remaining temperatures of this case
        let pdgt = std::panic::catch_unwind(std::panic::AssertUnwindSafe(|| eos.solve_pdgt(&vle, 200, 0, None)));
        let Ok(pdgt) = pdgt else {
            rec.require("pdgt_close_to_dft", &format!("Tr={tr}"), false, || "solve_pdgt panics".into());
            continue;
        };
        match pdgt {
            Ok((_, gp)) => {
                let e = ((gp.to_reduced() - g_ref) / g_ref).abs();
                rec.check("pdgt_close_to_dft", &format!("Tr={tr}"), e / 0.1, true, || format!("pDGT surface tension {:e} vs DFT {g_ref:e}", gp.to_reduced()));
            }
            Err(_) => rec.skip("pDGT fails (conditional)"),
        }
    }
    // vanishes towards the critical point: gamma ~ (1 - Tr)^1.5 for a mean-field functional (1.26 in reality);
    // gamma(0.99 Tc) must be below gamma(0.95 Tc) * (0.01/0.05)^1 with a wide margin
    if let Ok(vle) = PhaseEquilibrium::pure(eos, tc * 0.99, None, Default::default()) {
        if let Ok(pi) = PlanarInterface::from_tanh(&vle, 2048, 600.0 * ANGSTROM, tc, false).solve(None) {
            let g = pi.surface_tension.unwrap().to_reduced();
            rec.require("gamma_vanishes_at_Tc", "", g > 0.0 && g < 0.2 * last, || format!("surface tension at 0.99 Tc = {g:e}, at {last_tr} Tc = {last:e}"));
        }
    }
}

pub fn run(ctx: &mut Ctx) {
    let tier = ctx.tier;
    let pc = |names: &[&str]| Fl::Pc(Arc::new(PcSaftFunctional::new(zoo::pcsaft_params(&[(names, "gross2001")]))));
    let methane = pc(&["methane"]);
    let propane = pc(&["propane"]);
    let pets = Fl::Pets(Arc::new(PetsFunctional::new(Arc::new(PetsParameters::new_pure(PureRecord::new(Identifier::default(), 40.0, PetsRecord::new(3.4, 120.0, None, None, None))).unwrap()))));
    let hexane_gc = Fl::Gc(Arc::new(zoo::gc_func(&["hexane"])));
    let binary = pc(&["methane", "ethane"]);
    let mut cases = vec![];
    // (id, functional, composition, full lattice?)
    let fluids: Vec<(&str, Fl, Vec<f64>, bool)> = match tier {
        Tier::Quick => vec![("pcsaft:methane", methane.clone(), vec![1.0], true), ("pcsaft:methane+ethane", binary.clone(), vec![0.6, 0.4], false), ("gcpcsaft:hexane", hexane_gc.clone(), vec![1.0], false)],
        Tier::Thorough => vec![
            ("pcsaft:methane", methane.clone(), vec![1.0], true),
            ("pcsaft:propane", propane.clone(), vec![1.0], true),
            ("pets", pets.clone(), vec![1.0], true),
            ("gcpcsaft:hexane", hexane_gc.clone(), vec![1.0], false),
            ("pcsaft:methane+ethane", binary.clone(), vec![0.6, 0.4], true),
            ("pcsaft:methane+ethane", binary.clone(), vec![0.05, 0.95], false),
        ],
    };
    for (fid, eos, x, full) in fluids {
        for (gname, geo) in [("slit", Geometry::Cartesian), ("cylinder", Geometry::Cylindrical), ("sphere", Geometry::Spherical)] {
            for size in tier.pick(vec![12.0, 20.0], vec![12.0, 20.0, 40.0]) {
                for pot in tier.pick(vec!["lj93", "hardwall"], vec!["lj93", "steele", "hardwall", "simplelj93"]) {
                    // SimpleLJ93 is documented as unimplemented for curved pores
                    if pot == "simplelj93" && gname != "slit" {
                        continue;
                    }
                    for tr in tier.pick(vec![1.1], vec![0.7, 1.0, 1.1, 1.3]) {
                        for pfrac in tier.pick(vec![0.05], vec![0.05, 0.3]) {
                            for n in tier.pick(vec![512], vec![512, 2048]) {
                                if !full && (pot != "lj93" || size != 20.0 || pfrac != 0.05 || n != 512) {
                                    continue;
                                }
                                if n != 512 && (pot != "lj93" || pfrac != 0.05) {
                                    continue;
                                }
                                let xs = x.iter().map(|v| format!("{v}")).collect::<Vec<_>>().join(",");
                                cases.push(PoreCase { id: format!("{fid}|x={xs}|{gname}|{size}A|{pot}|Tr={tr}|p={pfrac}|n={n}"), eos: eos.clone(), geo, gname, size, pot, tr, pfrac, x: x.clone(), n });
                            }
                        }
                    }
                }
            }
        }
    }
    ctx.run(&cases, |c| c.id.clone(), pore_case);
    // adsorption-isotherm drivers on a subset of the pores (one size, LJ93, 512 points) at and above the critical temperature:
    // below it the continuation of an isotherm and a stand-alone calculation may legitimately sit on different branches of the
    // capillary-condensation hysteresis loop
    let iso: Vec<PoreCase> = cases.iter().filter(|c| c.size == 20.0 && c.pot == "lj93" && c.n == 512 && c.pfrac == tier.pick(0.05, 0.3) && c.tr >= 1.0).cloned().collect();
    ctx.run(&iso, |c| format!("isotherm|{}", c.id), isotherm_case);
    let planar: Vec<PlanarCase> = match tier {
        Tier::Quick => vec![PlanarCase { id: "pcsaft:propane".into(), eos: propane, trs: vec![0.7, 0.85], ls: vec![100.0, 200.0], ns: vec![512, 1024] }],
        Tier::Thorough => [("pcsaft:propane", propane), ("pcsaft:methane", methane), ("pcsaft:hexane", pc(&["hexane"])), ("pets", pets), ("gcpcsaft:hexane", hexane_gc)]
            .into_iter()
            .map(|(id, eos)| PlanarCase { id: id.into(), eos, trs: vec![0.5, 0.6, 0.7, 0.8, 0.9, 0.95], ls: vec![60.0, 100.0, 200.0, 300.0], ns: vec![256, 1024, 4096] })
            .collect(),
    };
    ctx.run(&planar, |c| format!("planar|{}", c.id), planar_case);
    ctx.rule = "pores: functionals {PC-SAFT methane, propane, methane+ethane (2 compositions), PeTS, gc-PC-SAFT hexane} x geometries {slit, cylinder, sphere} x sizes {12,20,40 A} x solid potentials {LJ93, Steele, hard wall, SimpleLJ93 (slit)} x T_r {0.7,1,1.1,1.3} x bulk vapour pressures {0.05,0.3 of p_sat or p_c} x grids {512,2048}: the profile is re-solved at p +- h, 2h, (x +- h, 2h for mixtures) and T +- dT, 2dT and the Richardson differences are compared with the reported quantities: dOmega = -sum N_i dmu_i (Gibbs adsorption) along every direction, dN_i = sum_j dn_dmu_ij dmu_j, dn_dp, dn_dt, dn_dmu . h_partial = -T dn_dt and enthalpy = sum x_i h_i, N_i/(x_i p) -> Henry coefficient at 1e-4 p, temperature dependence of the Henry coefficient vs ideal_gas_enthalpy_of_adsorption; adsorption-isotherm drivers (20 A LJ93 pores of every fluid and geometry): adsorption and desorption isotherms on nested 3-, 5- and 9-point pressure grids: every point = stand-alone pore calculation (1e-6), same value at shared pressures of different grids (1e-6), adsorption = desorption at supercritical temperature, pressure grid echoed, N increasing and Omega decreasing; planar interfaces: surface tension for L in {60,100,200,300} A x n in {256,1024,4096} x T_r in {0.5..0.95}: independent of box and grid up to the second-order discretisation error, decreasing with T, below 20 % of its 0.95 Tc value at 0.99 Tc, pDGT within 10 %".into();
    ctx.assume("pore states below capillary condensation as chosen; re-solves converge to 1e-12; conditional failures of a solver are counted as skipped, not as violations");
}
