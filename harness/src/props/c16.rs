//! C16 — a uniform fluid is an exact solution of the discretised DFT in every geometry
use crate::engine::{Ctx, Rec, Tier};
use crate::zoo;
use feos::hard_sphere::{FMTFunctional, FMTVersion};
use feos::pcsaft::PcSaftFunctional;
use feos::pets::{PetsFunctional, PetsParameters};
use feos::saftvrqmie::SaftVRQMieFunctional;
use feos::ResidualModel;
use feos_core::parameter::Parameter;
use feos_core::{Contributions, ReferenceSystem, Residual, State};
use feos_dft::{Axis, DFTProfile, Grid, HelmholtzEnergyFunctional};
use ndarray::{arr1, Array, Array1, Dimension, RemoveAxis};
use quantity::*;
use serde_json::json;
use std::sync::Arc;

pub type F = Arc<ResidualModel>;

#[derive(Clone)]
pub struct Func {
    pub id: String,
    pub eos: F,
    pub x: Array1<f64>,
    pub t: f64,
    /// bulk densities as fractions of max_density
    pub etas: Vec<f64>,
    pub quick: bool,
}

pub fn functionals() -> Vec<Func> {
    let mut v = vec![];
    let f = |id: &str, m: ResidualModel, x: Array1<f64>, t: f64, quick: bool| Func { id: id.into(), eos: Arc::new(m), x, t, etas: vec![0.02, 0.7], quick };
    for (nm, ver, q) in [("wb", FMTVersion::WhiteBear, true), ("kr", FMTVersion::KierlikRosinberg, false), ("aswb", FMTVersion::AntiSymWhiteBear, false)] {
        let mut e = f(&format!("fmt:{nm}:1"), ResidualModel::FmtFunctional(FMTFunctional::new(&arr1(&[3.5]), ver)), arr1(&[1.0]), 300.0, false);
        e.etas = vec![0.002, 0.04];
        v.push(e);
        let mut e = f(&format!("fmt:{nm}:2"), ResidualModel::FmtFunctional(FMTFunctional::new(&arr1(&[3.0, 4.0]), ver)), arr1(&[0.4, 0.6]), 300.0, q);
        e.etas = vec![0.002, 0.04];
        v.push(e);
        v.push(f(&format!("pcsaftfunc:propane:{nm}"), ResidualModel::PcSaftFunctional(PcSaftFunctional::new_full(zoo::pcsaft_params(&[(&["propane"], "gross2001")]), ver)), arr1(&[1.0]), 250.0, q));
    }
    v.push(f("pcsaftfunc:water", ResidualModel::PcSaftFunctional(PcSaftFunctional::new(zoo::pcsaft_params(&[(&["water"], "gross2002")]))), arr1(&[1.0]), 400.0, false));
    v.push(f("pcsaftfunc:methanol+water", ResidualModel::PcSaftFunctional(PcSaftFunctional::new(zoo::pcsaft_params(&[(&["methanol", "water"], "gross2002")]))), arr1(&[0.4, 0.6]), 400.0, false));
    v.push(f("pcsaftfunc:propane+hexane", ResidualModel::PcSaftFunctional(PcSaftFunctional::new(zoo::pcsaft_params(&[(&["propane", "hexane"], "gross2001")]))), arr1(&[0.4, 0.6]), 300.0, true));
    v.push(f("pcsaftfunc:acetone+co2", ResidualModel::PcSaftFunctional(PcSaftFunctional::new(zoo::pcsaft_params(&[(&["acetone"], "gross2006"), (&["carbon dioxide"], "gross2005_fit")]))), arr1(&[0.4, 0.6]), 350.0, false));
    v.push(f("gcpcsaftfunc:hexane", ResidualModel::GcPcSaftFunctional(zoo::gc_func(&["hexane"])), arr1(&[1.0]), 350.0, true));
    // bond graphs that are not chains: a branch point with three and with four neighbours, two adjacent branch points, (rings are rejected by the library:
    // "Cycle in molecular structure detected!"; the bond integrals and their linearisation recurse over the neighbours of every segment)
    for nm in ["isobutane", "neopentane", "2,3-dimethylbutane"] {
        v.push(f(&format!("gcpcsaftfunc:{nm}"), ResidualModel::GcPcSaftFunctional(zoo::gc_func(&[nm])), arr1(&[1.0]), 350.0, false));
    }
    v.push(f("gcpcsaftfunc:ethanol+propane", ResidualModel::GcPcSaftFunctional(zoo::gc_func(&["ethanol", "propane"])), arr1(&[0.4, 0.6]), 350.0, false));
    v.push(f("petsfunc:2k", ResidualModel::PetsFunctional(PetsFunctional::new(Arc::new(PetsParameters::new_binary(zoo::pets_records(), Some(0.05.into())).unwrap()))), arr1(&[0.4, 0.6]), 110.0, false));
    v.push(f("saftvrqmiefunc:h2", ResidualModel::SaftVRQMieFunctional(SaftVRQMieFunctional::new(zoo::vrq(&["hydrogen"], "aasen2019", None))), arr1(&[1.0]), 26.0, false));
    v
}

pub fn bulk_of(f: &Func, eta: f64) -> State<ResidualModel> {
    let m = Moles::from_reduced(f.x.clone());
    let rho = f.eos.max_density(Some(&m)).unwrap() * eta;
    State::new_nvt(&f.eos, Temperature::from_reduced(f.t), m.sum() / rho, &m).unwrap()
}

#[derive(Clone)]
pub struct GridSpec {
    pub name: String,
    pub n: usize,
    pub l: f64,
}

pub fn make_grid(kind: &str, n: usize, l: f64) -> Grid {
    let len = l * ANGSTROM;
    match kind {
        "cartesian1" => Grid::Cartesian1(Axis::new_cartesian(n, len, None)),
        "spherical" => Grid::Spherical(Axis::new_spherical(n, len)),
        "polar" => Grid::Polar(Axis::new_polar(n, len)),
        "cartesian2" => Grid::Cartesian2(Axis::new_cartesian(n, len, None), Axis::new_cartesian(n / 2, len * 0.7, None)),
        "periodical2" => Grid::Periodical2(Axis::new_cartesian(n, len, None), Axis::new_cartesian(n, len, None), 60.0 * DEGREES),
        "cylindrical" => Grid::Cylindrical { r: Axis::new_polar(n, len), z: Axis::new_cartesian((n / 2).min(32), len * 0.7, None) },
        "cartesian3" => Grid::Cartesian3(Axis::new_cartesian(n, len, None), Axis::new_cartesian(n, len, None), Axis::new_cartesian(n / 2, len * 0.7, None)),
        "periodical3" => Grid::Periodical3(Axis::new_cartesian(n, len, None), Axis::new_cartesian(n, len, None), Axis::new_cartesian(n, len, None), [90.0 * DEGREES, 90.0 * DEGREES, 60.0 * DEGREES]),
        // further unit cells: rectangular, 45 degrees and anisotropic; orthorhombic and triclinic
        "periodical2@90" => Grid::Periodical2(Axis::new_cartesian(n, len, None), Axis::new_cartesian(n / 2, len * 0.7, None), 90.0 * DEGREES),
        "periodical2@45" => Grid::Periodical2(Axis::new_cartesian(n, len, None), Axis::new_cartesian(n, len * 1.3, None), 45.0 * DEGREES),
        "periodical3@90" => Grid::Periodical3(Axis::new_cartesian(n, len, None), Axis::new_cartesian(n, len, None), Axis::new_cartesian(n / 2, len * 0.7, None), [90.0 * DEGREES, 90.0 * DEGREES, 90.0 * DEGREES]),
        "periodical3@tri" => Grid::Periodical3(Axis::new_cartesian(n, len, None), Axis::new_cartesian(n, len * 1.2, None), Axis::new_cartesian(n, len * 0.8, None), [70.0 * DEGREES, 80.0 * DEGREES, 60.0 * DEGREES]),
        _ => panic!("unknown grid {kind}"),
    }
}

struct Case {
    f: Func,
    eta: f64,
    kind: &'static str,
    n: usize,
    l: f64,
    lanczos: Option<i32>,
}

fn check<D>(c: &Case, rec: &mut Rec)
where
    D: Dimension + RemoveAxis + 'static,
    D::Larger: Dimension<Smaller = D>,
    D::Smaller: Dimension<Larger = D>,
    <D::Larger as Dimension>::Larger: Dimension<Smaller = D::Larger>,
{
    let bulk = bulk_of(&c.f, c.eta);
    let grid = make_grid(c.kind, c.n, c.l);
    let dims = grid.axes().len();
    let mut prof: DFTProfile<D, ResidualModel> = DFTProfile::new(grid, &bulk, None, None, c.lanczos);
    // uniform profile: every segment has the bulk density of its component
    let rho_b = bulk.partial_density.to_reduced();
    let ci = prof.dft.component_index().into_owned();
    let mut rho = prof.density.to_reduced();
    let default_uniform = {
        let mut worst = 0.0f64;
        for (s, &comp) in ci.iter().enumerate() {
            for v in rho.index_axis(ndarray::Axis(0), s).iter() {
                worst = worst.max((v - rho_b[comp]).abs() / rho_b[comp]);
            }
        }
        worst
    };
    rec.check("default_initial_density", "", default_uniform / 1e-10, true, || format!("the default initial density for zero external potential deviates from the bulk density by {default_uniform:e}"));
    for (s, &comp) in ci.iter().enumerate() {
        rho.index_axis_mut(ndarray::Axis(0), s).fill(rho_b[comp]);
    }
    prof.density = Density::from_reduced(rho.clone());
    let t = c.f.t;
    // (1) weighted densities = weight constants (k = 0) . bulk density
    let seg_rho: Array1<f64> = ci.mapv(|i| rho_b[i]);
    let wd = prof.weighted_densities().unwrap();
    let wf = prof.dft.weight_functions(t);
    for (k, (w, info)) in wd.iter().zip(wf.iter()).enumerate() {
        // bulk values from the weight constants at k = 0 (scalar weight functions only), laid out like the
        // convolver's output: [local density], scalar component, vector component x dims, scalar FMT, vector FMT x dims
        // (WeightFunctionInfo::weight_constants itself only supports 0 and 1 dimensions)
        let w0 = info.weight_constants(0.0, 0).dot(&seg_rho);
        let [sc, vc, sf, vf] = info.as_slice();
        let nseg = seg_rho.len();
        let n_local = w0.len() - sc.len() * nseg - sf.len();
        let mut e: Vec<f64> = w0.iter().take(n_local + sc.len() * nseg).cloned().collect();
        e.extend(std::iter::repeat(0.0).take(vc.len() * nseg * dims));
        e.extend(w0.iter().skip(n_local + sc.len() * nseg).cloned());
        e.extend(std::iter::repeat(0.0).take(vf.len() * dims));
        let expect = Array1::from_vec(e);
        let nrow = w.shape()[0];
        rec.require("weighted_densities", &format!("contribution{k}|rows"), nrow == expect.len(), || format!("{nrow} weighted densities, weight constants give {}", expect.len()));
        if nrow != expect.len() {
            continue;
        }
        let scale = expect.iter().fold(0.0f64, |a, b| a.max(b.abs())).max(1e-300);
        for r in 0..nrow {
            let row = w.index_axis(ndarray::Axis(0), r);
            let dev = row.iter().fold(0.0f64, |a, v| a.max((v - expect[r]).abs()));
            // vector weighted densities vanish: measured against the largest scalar one of the contribution
            let sc = expect[r].abs().max(1e-3 * scale);
            rec.check("weighted_densities", &format!("contribution{k}|row{r}"), dev / (1e-9 * sc), true, || format!("weighted density {r} of contribution {k} deviates from its bulk value {:e} by {dev:e}", expect[r]));
        }
    }
    // (2) Euler-Lagrange residual
    match prof.residual(false) {
        Ok((_, res_bulk, norm)) => {
            let sc = seg_rho.iter().fold(0.0f64, |a, b| a.max(*b));
            rec.check("euler_lagrange_residual", "", norm / (1e-9 * sc), true, || format!("residual norm {norm:e} for a uniform profile (bulk density {sc:e})"));
            let rb = res_bulk.iter().fold(0.0f64, |a, b| a.max(b.abs()));
            rec.check("euler_lagrange_residual", "bulk", rb / (1e-9 * sc), true, || format!("bulk residual {rb:e}"));
        }
        Err(e) => rec.require("euler_lagrange_residual", "", false, || format!("residual fails: {e}")),
    }
    // (3) grand potential density = -p pointwise
    let p = bulk.pressure(Contributions::Total).to_reduced();
    let p_scale = p.abs().max(bulk.density.to_reduced() * t);
    match prof.grand_potential_density() {
        Ok(om) => {
            let dev = om.to_reduced().iter().fold(0.0f64, |a, v| a.max((v + p).abs()));
            rec.check("grand_potential_density", "", dev / (1e-9 * p_scale), true, || format!("omega + p = {dev:e} (p = {p:e})"));
        }
        Err(e) => rec.require("grand_potential_density", "", false, || format!("{e}")),
    }
    // (4) integrals: N = rho * integral(1); volume() = integral(1) with the grid's own weights
    let ones = Array::<f64, D>::ones(rho.index_axis(ndarray::Axis(0), 0).raw_dim());
    let vol_int = prof.integrate(&Dimensionless::new(ones)).to_reduced();
    let vol = prof.volume().to_reduced();
    rec.check("volume=integral_of_one", "", (vol - vol_int).abs() / (1e-10 * vol_int), true, || format!("volume() = {vol:e} but the integration weights sum to {vol_int:e} (ratio {})", vol / vol_int));
    let n = prof.moles().to_reduced();
    for i in 0..rho_b.len() {
        let expect = rho_b[i] * vol_int;
        rec.check("moles=rho*V", &format!("{i}"), (n[i] - expect).abs() / (1e-10 * expect), true, || format!("moles {} vs rho * integral(1) = {expect}", n[i]));
    }
    // (5) hence zero excess grand potential
    if let Ok(om) = prof.grand_potential() {
        let ex = om.to_reduced() + p * vol_int;
        rec.check("excess_grand_potential", "", ex.abs() / (1e-9 * p_scale * vol_int), true, || format!("Omega + p * integral(1) = {ex:e}"));
    }
    rec.sample(json!({"functional": c.f.id, "eta": c.eta, "grid": c.kind, "n": c.n, "L": c.l, "lanczos": c.lanczos, "weighted_density_sets": wd.len()}));
}

fn case(c: &Case, rec: &mut Rec) {
    match c.kind {
        "cartesian1" | "spherical" | "polar" => check::<ndarray::Ix1>(c, rec),
        "cartesian2" | "periodical2" | "periodical2@90" | "periodical2@45" | "cylindrical" => check::<ndarray::Ix2>(c, rec),
        _ => check::<ndarray::Ix3>(c, rec),
    }
}

pub fn run(ctx: &mut Ctx) {
    let tier = ctx.tier;
    // both tiers run every functional (the quick tier on fewer grid sizes)
    let fs: Vec<Func> = functionals();
    let mut cases = vec![];
    for f in &fs {
        for &eta in &f.etas {
            let grids: Vec<(&'static str, Vec<usize>)> = match tier {
                Tier::Quick => vec![("cartesian1", vec![64, 256]), ("spherical", vec![128]), ("polar", vec![128]), ("cartesian2", vec![32]), ("periodical2", vec![32]), ("cylindrical", vec![32]), ("cartesian3", vec![16]), ("periodical3", vec![16])],
                Tier::Thorough => vec![
                    ("cartesian1", vec![16, 64, 256, 1024, 4096]),
                    ("spherical", vec![16, 64, 128, 256, 1024, 4096]),
                    ("polar", vec![16, 64, 128, 256, 1024, 4096]),
                    ("cartesian2", vec![16, 32, 64, 128]),
                    ("periodical2", vec![16, 32, 64, 128]),
                    ("periodical2@90", vec![16, 64]),
                    ("periodical2@45", vec![16, 64]),
                    ("cylindrical", vec![16, 32, 64, 128]),
                    ("cartesian3", vec![8, 16, 32]),
                    ("periodical3", vec![8, 16, 32]),
                    ("periodical3@90", vec![8, 16]),
                    ("periodical3@tri", vec![8, 16]),
                ],
            };
            for (kind, ns) in grids {
                for n in ns {
                    for l in tier.pick(vec![40.0], vec![10.0, 20.0, 40.0, 100.0, 300.0]) {
                        for lanczos in tier.pick(vec![None, Some(1)], vec![None, Some(1), Some(2)]) {
                            // 3-D grids only with one length / small functionals in the quick tier
                            if kind.contains('3') && (l != 40.0 || (n >= 32 && f.x.len() > 1)) {
                                continue;
                            }
                            cases.push(Case { f: f.clone(), eta, kind, n, l, lanczos });
                        }
                    }
                }
            }
        }
    }
    ctx.extra("functionals", json!(fs.iter().map(|f| f.id.clone()).collect::<Vec<_>>()));
    ctx.run(&cases, |c| format!("{}|eta={}|{}|n={}|L={}|lanczos={:?}", c.f.id, c.eta, c.kind, c.n, c.l, c.lanczos), case);
    ctx.rule = format!("functionals ({}) x 2 bulk states x grid types {{Cartesian1, Spherical, Polar, Cartesian2, Periodical2(60 deg), Cylindrical, Cartesian3, Periodical3}} x sizes x lengths x Lanczos {{None, Some(1)}} with a uniform density profile and zero external potential; oracle (bulk model): weighted densities = weight constants at k=0 times the bulk density (1e-9), Euler-Lagrange residual norm <= 1e-9 rho_b, grand potential density = -p pointwise, moles = rho * integral(1), volume() = integral(1) with the grid's own weights, zero excess grand potential", fs.len());
    ctx.assume("bulk states and grid sizes on the stated lattice");
}
