//! C10 — total = ideal gas + residual; ideal-gas limits and ideal-gas models (DESIGN §5 C10)
use crate::engine::{Ctx, Rec};
use crate::zoo::{self, pfile, FullModel};
use feos::ideal_gas::{Dippr, DipprRecord, IdealGasModel, Joback, JobackRecord};
use feos_core::parameter::{ChemicalRecord, Identifier, IdentifierOption, Parameter, PureRecord, SegmentRecord};
use feos_core::{Contributions, EquationOfState, IdealGas, ReferenceSystem, Residual, State};
use ndarray::{arr1, Array1};
use quantity::*;
use serde_json::json;
use std::sync::Arc;

const C: [Contributions; 3] = [Contributions::IdealGas, Contributions::Residual, Contributions::Total];

fn t_lattice(thorough: bool) -> Vec<f64> {
    if thorough {
        (0..28).map(|k| 150.0 + 50.0 * k as f64).collect()
    } else {
        vec![150.0, 298.15, 400.0, 600.0, 1000.0, 1500.0]
    }
}

/// every getter that takes a contribution selector, as (name, [ideal, residual, total])
fn selector_getters<E: Residual + IdealGas + feos_core::Molarweight>(s: &State<E>) -> Vec<(String, [f64; 3], f64)> {
    let mut v: Vec<(String, [f64; 3], f64)> = vec![];
    // magnitudes of the pieces composite getters are assembled from (they cancel: H_ig = TS + A + pV
    // vanishes at the reference temperature, 2 dp/dV + V d2p/dV2 vanishes for the ideal gas)
    let t = s.temperature.to_reduced();
    let vol = s.volume.to_reduced();
    let ntot = s.total_moles.to_reduced();
    let rho = ntot / vol;
    let mw = s.total_molar_weight().to_reduced();
    let sum_abs = |f: &dyn Fn(Contributions) -> f64| f(C[0]).abs() + f(C[1]).abs();
    let ts = t * sum_abs(&|c| s.entropy(c).to_reduced());
    let a = sum_abs(&|c| s.helmholtz_energy(c).to_reduced());
    let pv = vol * sum_abs(&|c| s.pressure(c).to_reduced());
    let d2 = vol / (rho * rho) * (2.0 * sum_abs(&|c| s.dp_dv(c).to_reduced()) + vol * sum_abs(&|c| s.d2p_dv2(c).to_reduced()));
    let cp_sc = t / ntot * (sum_abs(&|c| s.ds_dt(c).to_reduced()) + s.dp_dt(C[2]).to_reduced().powi(2) / s.dp_dv(C[2]).to_reduced().abs()) + 1.0;
    let dcv = (t * sum_abs(&|c| s.d2s_dt2(c).to_reduced()) + sum_abs(&|c| s.ds_dt(c).to_reduced())) / ntot;
    macro_rules! g {
        ($name:expr, $f:expr) => {
            v.push(($name.to_string(), [$f(C[0]), $f(C[1]), $f(C[2])], 0.0));
        };
        ($name:expr, $f:expr, $sc:expr) => {
            v.push(($name.to_string(), [$f(C[0]), $f(C[1]), $f(C[2])], $sc));
        };
    }
    g!("pressure", |c| s.pressure(c).to_reduced());
    g!("compressibility", |c| s.compressibility(c));
    g!("dp_dv", |c| s.dp_dv(c).to_reduced());
    g!("dp_drho", |c| s.dp_drho(c).to_reduced());
    g!("dp_dt", |c| s.dp_dt(c).to_reduced());
    g!("d2p_dv2", |c| s.d2p_dv2(c).to_reduced());
    g!("d2p_drho2", |c| s.d2p_drho2(c).to_reduced(), d2);
    g!("molar_isochoric_heat_capacity", |c| s.molar_isochoric_heat_capacity(c).to_reduced());
    g!("dc_v_dt", |c| s.dc_v_dt(c).to_reduced(), dcv);
    g!("molar_isobaric_heat_capacity", |c| s.molar_isobaric_heat_capacity(c).to_reduced(), cp_sc);
    g!("entropy", |c| s.entropy(c).to_reduced());
    g!("molar_entropy", |c| s.molar_entropy(c).to_reduced());
    g!("ds_dt", |c| s.ds_dt(c).to_reduced());
    g!("d2s_dt2", |c| s.d2s_dt2(c).to_reduced());
    g!("enthalpy", |c| s.enthalpy(c).to_reduced(), ts + a + pv);
    g!("molar_enthalpy", |c| s.molar_enthalpy(c).to_reduced(), (ts + a + pv) / ntot);
    g!("helmholtz_energy", |c| s.helmholtz_energy(c).to_reduced());
    g!("molar_helmholtz_energy", |c| s.molar_helmholtz_energy(c).to_reduced());
    g!("internal_energy", |c| s.internal_energy(c).to_reduced(), ts + a);
    g!("molar_internal_energy", |c| s.molar_internal_energy(c).to_reduced(), (ts + a) / ntot);
    g!("gibbs_energy", |c| s.gibbs_energy(c).to_reduced(), a + pv);
    g!("molar_gibbs_energy", |c| s.molar_gibbs_energy(c).to_reduced(), (a + pv) / ntot);
    g!("specific_entropy", |c| s.specific_entropy(c).to_reduced());
    g!("specific_enthalpy", |c| s.specific_enthalpy(c).to_reduced(), (ts + a + pv) / ntot / mw);
    g!("specific_isobaric_heat_capacity", |c| s.specific_isobaric_heat_capacity(c).to_reduced(), cp_sc / mw);
    g!("specific_isochoric_heat_capacity", |c| s.specific_isochoric_heat_capacity(c).to_reduced());
    g!("specific_helmholtz_energy", |c| s.specific_helmholtz_energy(c).to_reduced());
    g!("specific_internal_energy", |c| s.specific_internal_energy(c).to_reduced(), (ts + a) / ntot / mw);
    g!("specific_gibbs_energy", |c| s.specific_gibbs_energy(c).to_reduced(), (a + pv) / ntot / mw);
    let n = s.eos.components();
    for i in 0..n {
        g!(format!("chemical_potential{i}"), |c| s.chemical_potential(c).to_reduced()[i]);
        g!(format!("dmu_dt{i}"), |c| s.dmu_dt(c).to_reduced()[i]);
        g!(format!("dp_dni{i}"), |c| s.dp_dni(c).to_reduced()[i]);
        for j in 0..n {
            g!(format!("dmu_dni{i},{j}"), |c| s.dmu_dni(c).to_reduced()[[i, j]]);
        }
    }
    v
}

struct SumCase {
    id: String,
    eos: FullModel,
    x: Array1<f64>,
    t: f64,
    eta: f64,
}

fn sum_case(c: &SumCase, rec: &mut Rec) {
    let m = Moles::from_reduced(c.x.clone());
    let rmax = c.eos.max_density(Some(&m)).unwrap().to_reduced();
    let s = State::new_nvt(&c.eos, Temperature::from_reduced(c.t), Volume::from_reduced(1.0 / (rmax * c.eta)), &m).unwrap();
    for (name, [ig, res, tot], extra) in selector_getters(&s) {
        if !res.is_finite() {
            rec.skip("residual part not finite");
            continue;
        }
        let sc = ig.abs() + res.abs() + extra;
        let err = (tot - (ig + res)).abs();
        rec.check("sum_rule", &name, err / (1e-12 * sc).max(1e-300), sc > 0.0, || format!("{name}: total {tot:e} != ideal {ig:e} + residual {res:e}"));
    }
    // the third-order ideal-gas getters are the temperature derivatives of the second-order ones (Richardson difference
    // at constant V, N): dc_v/dT and d2S/dT2, ideal-gas part and total
    {
        let at = |h: f64| State::new_nvt(&c.eos, Temperature::from_reduced(c.t + h), s.volume, &m).unwrap();
        let h = 1e-3 * c.t;
        for contrib in [Contributions::IdealGas, Contributions::Total] {
            let cname = if matches!(contrib, Contributions::IdealGas) { "ideal" } else { "total" };
            let (r, e) = crate::engine::rich(&|h| at(h).molar_isochoric_heat_capacity(contrib).to_reduced(), h);
            let ana = s.dc_v_dt(contrib).to_reduced();
            if r.is_finite() && ana.is_finite() {
                let sc = ana.abs().max(r.abs()).max(1.0 / c.t);
                rec.check("third_order_temperature_derivative", &format!("dc_v_dt|{cname}"), (ana - r).abs() / (50.0 * e + 1e-6 * sc), true, || format!("dc_v_dt({cname}) = {ana:e}, difference of c_v(T) = {r:e} (estimate {e:e})"));
            }
            let (r, e) = crate::engine::rich(&|h| at(h).ds_dt(contrib).to_reduced(), h);
            let ana = s.d2s_dt2(contrib).to_reduced();
            if r.is_finite() && ana.is_finite() {
                let n = m.sum().to_reduced();
                let sc = ana.abs().max(r.abs()).max(n / (c.t * c.t));
                rec.check("third_order_temperature_derivative", &format!("d2s_dt2|{cname}"), (ana - r).abs() / (50.0 * e + 1e-6 * sc), true, || format!("d2s_dt2({cname}) = {ana:e}, difference of ds_dt(T) = {r:e} (estimate {e:e})"));
            }
        }
    }
    // ideal-gas pressure is rho*R*T in SI units
    let rho_si = s.density.convert_into(MOL / METER.powi::<typenum::P3>());
    let p_si = s.pressure(Contributions::IdealGas).convert_into(PASCAL);
    let expect = rho_si * 8.31446261815324 * c.t;
    rec.check("p_ideal_si", "", (p_si - expect).abs() / (1e-12 * expect), true, || format!("p_ig = {p_si:e} Pa, rho R T = {expect:e} Pa"));
}

/// residual properties vanish in the zero-density limit (linear bound along the density ladder)
fn limit_case(c: &(String, FullModel, Array1<f64>, f64), rec: &mut Rec) {
    let (_, eos, x, t) = c;
    let m = Moles::from_reduced(x.clone());
    let rmax = eos.max_density(Some(&m)).unwrap().to_reduced();
    let q = |eta: f64| -> Vec<(&'static str, f64)> {
        let s = State::new_nvt(eos, Temperature::from_reduced(*t), Volume::from_reduced(1.0 / (rmax * eta)), &m).unwrap();
        let rt = *t;
        let mut v = vec![
            ("Z_res", s.compressibility(Contributions::Residual)),
            ("a_res/RT", s.molar_helmholtz_energy(Contributions::Residual).to_reduced() / rt),
            ("s_res/R", s.molar_entropy(Contributions::Residual).to_reduced()),
            ("h_res/RT", s.molar_enthalpy(Contributions::Residual).to_reduced() / rt),
            ("cv_res/R", s.molar_isochoric_heat_capacity(Contributions::Residual).to_reduced()),
            ("cp_res/R", s.molar_isobaric_heat_capacity(Contributions::Residual).to_reduced()),
        ];
        for (i, mu) in s.chemical_potential(Contributions::Residual).to_reduced().iter().enumerate() {
            v.push((["mu0_res/RT", "mu1_res/RT", "mu2_res/RT"][i.min(2)], mu / rt));
        }
        v
    };
    // Strongly associating fluids are still fully dimerised at eta = 1e-3 (Z_res = -1 for methanol at
    // 150 K) and c_v^res even peaks in between, so neither monotonicity nor a linear law from 1e-3
    // holds on correct code. What the limit does imply: far down the ladder every residual property is
    // proportional to the density, i.e. three more decades in density give three decades in the property,
    // and the value at the bottom is small compared with the largest value on the ladder.
    let ladder = [1e-3, 1e-6, 1e-9, 1e-12];
    let vals: Vec<Vec<(&'static str, f64)>> = ladder.iter().map(|&e| q(e)).collect();
    if vals.iter().any(|v| v.iter().any(|b| !b.1.is_finite())) {
        rec.skip("residual not finite on the ladder");
        return;
    }
    for k in 0..vals[0].len() {
        let name = vals[0][k].0;
        let (q9, q12) = (vals[2][k].1, vals[3][k].1);
        let qmax = vals.iter().map(|v| v[k].1.abs()).fold(0.0f64, f64::max);
        let bound = 5e-3 * q9.abs() + 1e-9;
        rec.check("zero_density_limit", &format!("{name}|linear"), q12.abs() / bound, q9.abs() > 1e-9, || format!("{name}: {q12:e} at eta=1e-12 vs {q9:e} at eta=1e-9 (not proportional to the density)"));
        rec.check("zero_density_limit", &format!("{name}|small"), q12.abs() / (1e-2 * qmax + 1e-9), qmax > 1e-9, || format!("{name}: {q12:e} at eta=1e-12, largest value on the ladder {qmax:e}"));
    }
}

// ---- reference re-implementation of the documented heat-capacity correlations, J/(mol K)
fn cp_dippr_ref(r: &DipprRecord, t: f64) -> f64 {
    let v = match r {
        DipprRecord::DIPPR100(c) => c.iter().enumerate().map(|(i, c)| c * t.powi(i as i32)).sum::<f64>(),
        DipprRecord::DIPPR107([a, b, c, d, e]) => a + b * ((c / t) / (c / t).sinh()).powi(2) + d * ((e / t) / (e / t).cosh()).powi(2),
        DipprRecord::DIPPR127([a, b, c, d, e, f, g]) => {
            let term = |p: f64| (p / t).powi(2) * (p / t).exp() / ((p / t).exp() - 1.0).powi(2);
            a + b * term(*c) + d * term(*e) + f * term(*g)
        }
    };
    v / 1000.0 // J/kmol/K -> J/mol/K
}
fn cp_joback_ref(r: &JobackRecord, t: f64) -> f64 {
    r.a + r.b * t + r.c * t * t + r.d * t.powi(3) + r.e * t.powi(4)
}

const R_SI: f64 = 8.31446261815324;

fn cp_case_dippr(c: &(String, Vec<PureRecord<DipprRecord>>, Array1<f64>, f64), rec: &mut Rec) {
    let (_, recs, x, t) = c;
    let dippr = Arc::new(Dippr::from_records(recs.clone(), None).unwrap());
    let eos = Arc::new(EquationOfState::ideal_gas(dippr.clone()));
    let s = State::new_nvt(&eos, *t * KELVIN, 1.0 * METER.powi::<typenum::P3>(), &(x * 2.0 * MOL)).unwrap();
    let cp = s.molar_isobaric_heat_capacity(Contributions::IdealGas).convert_into(JOULE / (MOL * KELVIN));
    let cp_tot = s.molar_isobaric_heat_capacity(Contributions::Total).convert_into(JOULE / (MOL * KELVIN));
    let reference: f64 = x.iter().zip(recs.iter()).map(|(x, r)| x * cp_dippr_ref(&r.model_record, *t)).sum();
    let lib = dippr.molar_isobaric_heat_capacity(*t * KELVIN, x).unwrap().convert_into(JOULE / (MOL * KELVIN));
    let sc = reference.abs().max(R_SI);
    rec.check("cp_ideal_vs_correlation", "state", (cp - reference).abs() / (1e-9 * sc), true, || format!("c_p^ig from the Helmholtz energy = {cp}, correlation = {reference} J/mol/K"));
    rec.check("cp_ideal_vs_correlation", "lib_fn", (lib - reference).abs() / (1e-12 * sc), true, || format!("Dippr::molar_isobaric_heat_capacity = {lib}, correlation = {reference}"));
    rec.check("cp_ideal_vs_correlation", "total_of_ideal_gas_model", (cp_tot - cp).abs() / (1e-12 * sc), true, || format!("total {cp_tot} vs ideal {cp}"));
    // enthalpy and entropy integrals: dh/dT = c_p, ds/dT|_V = c_v/T
    let h = |dt: f64| State::new_nvt(&eos, (*t + dt) * KELVIN, 1.0 * METER.powi::<typenum::P3>(), &(x * 2.0 * MOL)).unwrap().molar_enthalpy(Contributions::IdealGas).convert_into(JOULE / MOL);
    let (r, e) = crate::engine::rich(&h, 1e-3 * t);
    rec.check("cp_ideal_vs_correlation", "dh_dT", (r - reference).abs() / (50.0 * e + 1e-6 * sc), true, || format!("dh^ig/dT = {r}, correlation = {reference}"));
    let sfun = |dt: f64| State::new_nvt(&eos, (*t + dt) * KELVIN, 1.0 * METER.powi::<typenum::P3>(), &(x * 2.0 * MOL)).unwrap().molar_entropy(Contributions::IdealGas).convert_into(JOULE / (MOL * KELVIN));
    let (r, e) = crate::engine::rich(&sfun, 1e-3 * t);
    let cv_over_t = (reference - R_SI) / t;
    rec.check("cp_ideal_vs_correlation", "ds_dT", (r - cv_over_t).abs() / (50.0 * e + 1e-6 * sc / t), true, || format!("ds^ig/dT|V = {r}, (c_p - R)/T = {cv_over_t}"));
}

fn cp_case_joback(c: &(String, Vec<String>, Array1<f64>, f64), rec: &mut Rec) {
    let (_, names, x, t) = c;
    let nn: Vec<&str> = names.iter().map(|s| s.as_str()).collect();
    let Ok(j) = Joback::from_json_segments(&nn, pfile("pcsaft/gc_substances.json"), pfile("ideal_gas/joback1987.json"), None, IdentifierOption::Name) else {
        rec.skip("substance has a segment without Joback parameters");
        return;
    };
    let j = Arc::new(j);
    let (recs, _) = j.records();
    let reference: f64 = x.iter().zip(recs.iter()).map(|(x, r)| x * cp_joback_ref(&r.model_record, *t)).sum();
    let eos = Arc::new(EquationOfState::ideal_gas(j.clone()));
    let s = State::new_nvt(&eos, *t * KELVIN, 1.0 * METER.powi::<typenum::P3>(), &(x * 2.0 * MOL)).unwrap();
    let cp = s.molar_isobaric_heat_capacity(Contributions::IdealGas).convert_into(JOULE / (MOL * KELVIN));
    let lib = j.molar_isobaric_heat_capacity(*t * KELVIN, x).unwrap().convert_into(JOULE / (MOL * KELVIN));
    let sc = reference.abs().max(R_SI);
    // Joback uses its own (CODATA 2014) gas constant internally: 6.022140857*1.38064852 vs 8.31446261815324 (5e-8 relative)
    rec.check("cp_ideal_vs_correlation", "joback_state", (cp - reference).abs() / (3e-6 * sc), true, || format!("c_p^ig from the Helmholtz energy = {cp}, Joback polynomial = {reference} J/mol/K"));
    rec.check("cp_ideal_vs_correlation", "joback_lib_fn", (lib - reference).abs() / (3e-6 * sc), true, || format!("Joback::molar_isobaric_heat_capacity = {lib}, polynomial = {reference}"));
    // group contribution sum itself (documented: constants -37.93, 0.21, -3.91e-4, 2.06e-7 plus sum n_k * group values)
    if names.len() == 1 {
        let subs: Vec<ChemicalRecord> = serde_json::from_reader(std::fs::File::open(pfile("pcsaft/gc_substances.json")).unwrap()).unwrap();
        let segs: Vec<SegmentRecord<JobackRecord>> = serde_json::from_reader(std::fs::File::open(pfile("ideal_gas/joback1987.json")).unwrap()).unwrap();
        let cr = subs.iter().find(|c| c.identifier.name.as_deref() == Some(names[0].as_str())).unwrap();
        let (mut a, mut b, mut cc, mut d, mut e) = (-37.93, 0.21, -3.91e-4, 2.06e-7, 0.0);
        for sname in &cr.segments {
            let g = &segs.iter().find(|s| &s.identifier == sname).unwrap().model_record;
            a += g.a;
            b += g.b;
            cc += g.c;
            d += g.d;
            e += g.e;
        }
        let from_groups = cp_joback_ref(&JobackRecord::new(a, b, cc, d, e), *t);
        rec.check("cp_ideal_vs_correlation", "joback_group_sum", (from_groups - reference).abs() / (1e-10 * sc), true, || format!("group sum {from_groups} vs assembled record {reference}"));
    }
}

/// ideal mixing: mu_i^ig(mixture) - mu_i^ig(pure, same T, same total density) = RT ln x_i
fn mixing_case(c: &(String, Vec<PureRecord<DipprRecord>>, Array1<f64>, f64), rec: &mut Rec) {
    let (_, recs, x, t) = c;
    let mix = Arc::new(EquationOfState::ideal_gas(Arc::new(Dippr::from_records(recs.clone(), None).unwrap())));
    // the relation is exact at every density: a ladder from 20 mol/m3 down to 2e-13 mol/m3 (partial densities down to
    // 1e-21 per cubic Angstrom - far below any threshold that could be mistaken for "component absent")
    let v = 0.05 * METER.powi::<typenum::P3>();
    for (k, vf) in [1.0, 1e5, 1e10, 1e14].into_iter().enumerate() {
        let v = v * vf;
        let s = State::new_nvt(&mix, *t * KELVIN, v, &(x * MOL)).unwrap();
        let mu = s.chemical_potential(Contributions::IdealGas).to_reduced();
        for i in 0..x.len() {
            let pure = Arc::new(EquationOfState::ideal_gas(Arc::new(Dippr::new_pure(recs[i].clone()).unwrap())));
            let sp = State::new_nvt(&pure, *t * KELVIN, v, &(arr1(&[x.sum()]) * MOL)).unwrap();
            let mp = sp.chemical_potential(Contributions::IdealGas).to_reduced()[0];
            let expect = mp + t * (x[i] / x.sum()).ln();
            let sub = if k == 0 { format!("{i}") } else { format!("{i}|V x {vf:e}") };
            rec.check("ideal_mixing", &sub, (mu[i] - expect).abs() / (1e-10 * (mu[i].abs() + t)), true, || format!("mu_{i}^ig(mix) = {:e}, mu^ig(pure) + RT ln x = {expect:e}", mu[i]));
        }
        // Euler relation of the ideal-gas part: G = sum N_i mu_i, and p_ig V = N R T
        let n = (x * MOL).to_reduced();
        let g = (s.helmholtz_energy(Contributions::IdealGas) + s.pressure(Contributions::IdealGas) * s.volume).to_reduced();
        let nm: f64 = n.iter().zip(mu.iter()).map(|(a, b)| a * b).sum();
        let sc: f64 = n.iter().zip(mu.iter()).map(|(a, b)| (a * b).abs()).sum();
        rec.check("ideal_gas_euler", &format!("V x {vf:e}"), (g - nm).abs() / (1e-10 * sc), true, || format!("A_ig + p_ig V = {g:e}, sum N_i mu_i^ig = {nm:e}"));
    }
    // every ordered sub-system taken with Components::subset is the ideal gas of exactly those components (DIPPR here, and a
    // Joback mixture of group-contribution substances)
    {
        use feos_core::Components;
        let n = x.len();
        let mut lists: Vec<Vec<usize>> = (0..n).map(|i| vec![i]).collect();
        for i in 0..n {
            for j in 0..n {
                if i != j {
                    lists.push(vec![i, j]);
                }
            }
        }
        let props_of = |e: &Arc<EquationOfState<Dippr, feos_core::NoResidual>>, xs: &Array1<f64>| -> Vec<f64> {
            let st = State::new_nvt(e, *t * KELVIN, v, &(xs * MOL)).unwrap();
            let mut o = vec![st.molar_isobaric_heat_capacity(Contributions::IdealGas).to_reduced(), st.molar_entropy(Contributions::IdealGas).to_reduced(), st.molar_enthalpy(Contributions::IdealGas).to_reduced()];
            o.extend(st.chemical_potential(Contributions::IdealGas).to_reduced().iter());
            o
        };
        for l in lists {
            let sub = Arc::new(mix.subset(&l));
            let direct = Arc::new(EquationOfState::ideal_gas(Arc::new(Dippr::from_records(l.iter().map(|&i| recs[i].clone()).collect(), None).unwrap())));
            let xs: Array1<f64> = l.iter().map(|&i| x[i]).collect();
            let (a, b) = (props_of(&sub, &xs), props_of(&direct, &xs));
            let worst = a.iter().zip(b.iter()).map(|(u, w)| (u - w).abs() / (1e-12 * (u.abs().max(w.abs()) + t))).fold(0.0, f64::max);
            rec.check("ideal_gas_subset", &format!("dippr|{l:?}"), worst, true, || format!("subset({l:?}) of the DIPPR mixture gives {a:?}, the model built from those records {b:?}"));
        }
        // Joback: three group-contribution substances, every single-component and ordered two-component subset
        let names = ["propane", "1-butanol", "hexane"];
        if let Some(j) = zoo::joback_for(&names) {
            let jm = Arc::new(EquationOfState::ideal_gas(Arc::new(j)));
            let pj = |e: &Arc<EquationOfState<feos::ideal_gas::Joback, feos_core::NoResidual>>, xs: &Array1<f64>| -> Vec<f64> {
                let st = State::new_nvt(e, *t * KELVIN, v, &(xs * MOL)).unwrap();
                let mut o = vec![st.molar_isobaric_heat_capacity(Contributions::IdealGas).to_reduced(), st.molar_entropy(Contributions::IdealGas).to_reduced()];
                o.extend(st.chemical_potential(Contributions::IdealGas).to_reduced().iter());
                o
            };
            for l in [vec![0usize], vec![1], vec![2], vec![0, 2], vec![2, 0], vec![1, 2], vec![2, 1], vec![1, 0]] {
                let sub = Arc::new(jm.subset(&l));
                let nn: Vec<&str> = l.iter().map(|&i| names[i]).collect();
                let Some(d) = zoo::joback_for(&nn) else { continue };
                let direct = Arc::new(EquationOfState::ideal_gas(Arc::new(d)));
                let xs: Array1<f64> = l.iter().map(|&i| [0.2, 0.3, 0.5][i]).collect();
                let (a, b) = (pj(&sub, &xs), pj(&direct, &xs));
                let worst = a.iter().zip(b.iter()).map(|(u, w)| (u - w).abs() / (1e-12 * (u.abs().max(w.abs()) + t))).fold(0.0, f64::max);
                rec.check("ideal_gas_subset", &format!("joback|{l:?}"), worst, true, || format!("subset({l:?}) of the Joback mixture gives {a:?}, the model built for {nn:?} gives {b:?}"));
            }
        }
    }
    let s = State::new_nvt(&mix, *t * KELVIN, v, &(x * MOL)).unwrap();
    // mixture heat capacity is the mole-fraction average of the pure ones
    let cpm = s.molar_isobaric_heat_capacity(Contributions::IdealGas).to_reduced();
    let avg: f64 = (0..x.len())
        .map(|i| {
            let pure = Arc::new(EquationOfState::ideal_gas(Arc::new(Dippr::new_pure(recs[i].clone()).unwrap())));
            x[i] / x.sum() * State::new_nvt(&pure, *t * KELVIN, v, &(arr1(&[1.0]) * MOL)).unwrap().molar_isobaric_heat_capacity(Contributions::IdealGas).to_reduced()
        })
        .sum();
    rec.check("ideal_mixing", "cp_average", (cpm - avg).abs() / (1e-10 * avg.abs()), true, || format!("c_p^ig(mix) = {cpm}, mole-fraction average = {avg}"));
}

pub fn run(ctx: &mut Ctx) {
    let thorough = ctx.tier == crate::engine::Tier::Thorough;
    let recs = zoo::dippr_records();
    // ---- A/B: sum rule on residual zoo x ideal-gas models
    let z = zoo::zoo(ctx.tier);
    let mut sums = vec![];
    let mut limits = vec![];
    for e in &z {
        if let Some(full) = zoo::with_ideal_gas(e, &recs) {
            for x in e.compositions(ctx.tier) {
                for &t in &t_lattice(thorough) {
                    for eta in [1e-12, 1e-9, 1e-6, 1e-3, 0.1, 0.5, 0.8] {
                        sums.push(SumCase { id: format!("dippr+{}", e.id), eos: full.clone(), x: x.clone(), t, eta });
                    }
                    limits.push((format!("dippr+{}", e.id), full.clone(), x.clone(), t));
                }
            }
        }
    }
    // Joback ideal gas + gc-PC-SAFT residual
    for names in [vec!["propane"], vec!["ethanol", "propane"], vec!["1-butanol", "hexane"]] {
        if let Some(j) = zoo::joback_for(&names) {
            let res = Arc::new(feos::ResidualModel::GcPcSaft(zoo::gc_eos(&names)));
            let full: FullModel = Arc::new(EquationOfState::new(Arc::new(IdealGasModel::Joback(Arc::new(j))), res));
            let x = if names.len() == 1 { arr1(&[1.0]) } else { arr1(&[0.3, 0.7]) };
            for &t in &t_lattice(thorough) {
                for eta in [1e-12, 1e-6, 1e-3, 0.1, 0.5] {
                    sums.push(SumCase { id: format!("joback+gcpcsaft:{}", names.join("+")), eos: full.clone(), x: x.clone(), t, eta });
                }
                limits.push((format!("joback+gcpcsaft:{}", names.join("+")), full.clone(), x.clone(), t));
            }
        }
    }
    ctx.run(&sums, |c| format!("{}|x={}|T={}|eta={:e}", c.id, super::common::xs(&c.x), c.t, c.eta), sum_case);
    ctx.run(&limits, |c| format!("limit|{}|x={}|T={}", c.0, super::common::xs(&c.2), c.3), limit_case);
    // ---- D: heat-capacity correlations: every shipped DIPPR record, synthetic 107/127 lattices, every gc substance for Joback
    let mut dc: Vec<(String, Vec<PureRecord<DipprRecord>>, Array1<f64>, f64)> = vec![];
    let mut all: Vec<PureRecord<DipprRecord>> = recs.clone();
    let mut syn = vec![];
    for c in [500.0, 1500.0] {
        for e in [300.0, 2500.0] {
            for (a, b, d) in [(33000.0, 80000.0, 50000.0), (50000.0, 2.0e5, -3.0e4)] {
                syn.push(PureRecord::new(Identifier::new(None, Some(&format!("syn107:a={a},b={b},c={c},d={d},e={e}")), None, None, None, None), 50.0, DipprRecord::eq107(a, b, c, d, e)));
                for g in [900.0, 4000.0] {
                    syn.push(PureRecord::new(Identifier::new(None, Some(&format!("syn127:a={a},b={b},c={c},d={d},e={e},f=20000,g={g}")), None, None, None, None), 50.0, DipprRecord::eq127(a, b, c, d, e, 20000.0, g)));
                }
            }
        }
    }
    all.extend(syn.clone());
    let stride = if thorough { 1 } else { 9 };
    for (k, r) in all.iter().enumerate() {
        let is_syn = k >= recs.len();
        if !is_syn && k % stride != 0 {
            continue;
        }
        for &t in &t_lattice(thorough) {
            dc.push((r.identifier.name.clone().unwrap_or_default(), vec![r.clone()], arr1(&[1.0]), t));
        }
    }
    // mixtures: consecutive record pairs (and a shipped record with a synthetic one)
    let mut mixes: Vec<(String, Vec<PureRecord<DipprRecord>>, Array1<f64>, f64)> = vec![];
    for k in (0..all.len() - 1).step_by(if thorough { 7 } else { 40 }) {
        for &t in &[200.0, 298.15, 700.0, 1400.0] {
            let pair = vec![all[k].clone(), all[all.len() - 1 - k % syn.len()].clone()];
            let nm = format!("{}+{}", pair[0].identifier.name.clone().unwrap_or_default(), pair[1].identifier.name.clone().unwrap_or_default());
            mixes.push((nm.clone(), pair.clone(), arr1(&[0.3, 0.7]), t));
            dc.push((nm, pair, arr1(&[0.3, 0.7]), t));
        }
    }
    ctx.run(&dc, |c| format!("cp|dippr|{}|x={}|T={}", c.0, super::common::xs(&c.2), c.3), cp_case_dippr);
    ctx.run(&mixes, |c| format!("mixing|{}|T={}", c.0, c.3), mixing_case);
    let subs: Vec<ChemicalRecord> = serde_json::from_reader(std::fs::File::open(pfile("pcsaft/gc_substances.json")).unwrap()).unwrap();
    let mut jc: Vec<(String, Vec<String>, Array1<f64>, f64)> = vec![];
    for (k, c) in subs.iter().enumerate() {
        if !thorough && k % 6 != 0 {
            continue;
        }
        let name = c.identifier.name.clone().unwrap();
        for &t in &t_lattice(thorough) {
            jc.push((name.clone(), vec![name.clone()], arr1(&[1.0]), t));
        }
        if k + 1 < subs.len() && k % 4 == 0 {
            let n2 = subs[k + 1].identifier.name.clone().unwrap();
            jc.push((format!("{name}+{n2}"), vec![name.clone(), n2], arr1(&[0.4, 0.6]), 400.0));
        }
    }
    ctx.run(&jc, |c| format!("cp|joback|{}|T={}", c.0, c.3), cp_case_joback);
    ctx.extra("dippr_records_shipped", json!(recs.len()));
    ctx.extra("dippr_records_synthetic", json!(syn.len()));
    ctx.extra("gc_substances", json!(subs.len()));
    ctx.rule = format!("sum rule Total = IdealGas + Residual for every getter with a contribution selector on (residual zoo with an ideal-gas model) x compositions x T in {:?} K x eta in {{1e-12..0.8}}; p_ig = rho R T in SI; residual -> 0 linearly along the ladder 1e-3..1e-12; c_p^ig from the Helmholtz energy vs re-implemented DIPPR 100/107/127 and Joback correlations for every{} shipped DIPPR record, {} synthetic 107/127 records and every{} gc substance, mixtures as mole-fraction average; ideal mixing RT ln x_i", t_lattice(thorough), if thorough { "" } else { " 9th" }, syn.len(), if thorough { "" } else { " 6th" });
    ctx.assume("T lattice 150..1500 K; densities on the stated ladder");
}
