//! C09 — invariance under relabelling, zero padding, splitting; subset == direct construction
use super::c08::props;
use crate::engine::{Ctx, Rec, Tier};
use crate::zoo::{self, pfile};
use feos::epcsaft::{ElectrolytePcSaft, ElectrolytePcSaftOptions, ElectrolytePcSaftParameters, ElectrolytePcSaftVariants};
use feos::hard_sphere::FMTVersion;
use feos::pcsaft::{DQVariants, PcSaft, PcSaftBinaryRecord, PcSaftFunctional, PcSaftOptions, PcSaftParameters};
use feos::pets::{Pets, PetsOptions, PetsParameters};
use feos::saftvrmie::{SaftVRMie, SaftVRMieOptions, SaftVRMieParameters};
use feos::saftvrqmie::{SaftVRQMie, SaftVRQMieOptions, SaftVRQMieParameters};
use feos::uvtheory::{Perturbation, UVTheory, UVTheoryOptions, UVTheoryParameters};
use feos::ResidualModel;
use feos_core::cubic::{PengRobinson, PengRobinsonParameters};
use feos_core::parameter::{IdentifierOption, Parameter, ParameterHetero, PureRecord};
use feos_core::{Components, Contributions, PhaseEquilibrium, ReferenceSystem, Residual, State};
use ndarray::{arr1, Array1, Array2};
use quantity::*;
use serde_json::json;
use std::sync::Arc;

type M = Arc<ResidualModel>;
type Job = (String, Box<dyn Fn(&mut Rec) + Send + Sync>);

fn perms(n: usize) -> Vec<Vec<usize>> {
    fn rec(cur: &mut Vec<usize>, used: &mut Vec<bool>, n: usize, out: &mut Vec<Vec<usize>>) {
        if cur.len() == n {
            out.push(cur.clone());
            return;
        }
        for i in 0..n {
            if !used[i] {
                used[i] = true;
                cur.push(i);
                rec(cur, used, n, out);
                cur.pop();
                used[i] = false;
            }
        }
    }
    let mut out = vec![];
    rec(&mut vec![], &mut vec![false; n], n, &mut out);
    out
}
/// all ordered subsets (non-empty, without repetition) of 0..n
fn ordered_subsets(n: usize) -> Vec<Vec<usize>> {
    let mut out = vec![];
    for mask in 1u32..(1 << n) {
        let idx: Vec<usize> = (0..n).filter(|i| mask & (1 << i) != 0).collect();
        for p in perms(idx.len()) {
            out.push(p.iter().map(|&k| idx[k]).collect());
        }
    }
    out
}

/// compare two property vectors where `b` belongs to a relabelled model: `map[i]` = index in b of
/// component i of a (None = component does not exist in b)
fn compare(rec: &mut Rec, oracle: &str, a: &[(String, f64, f64)], b: &[(String, f64, f64)], rename: &dyn Fn(&str) -> Option<String>, band: f64) {
    let bm: std::collections::HashMap<&str, f64> = b.iter().map(|(k, v, _)| (k.as_str(), *v)).collect();
    for (name, va, ideal) in a {
        let Some(nb) = rename(name) else { continue };
        let Some(&vb) = bm.get(nb.as_str()) else { continue };
        if va.is_nan() && vb.is_nan() {
            // outside the model's domain (e.g. ePC-SAFT permittivity far above T_c of water, ions without solvent)
            rec.skip("both NaN");
            continue;
        }
        let lim = band * va.abs().max(vb.abs()) + 1e-11 * ideal;
        rec.check(oracle, name, (va - vb).abs() / lim.max(1e-300), va.abs() > 0.0, || format!("{name}: {va:e} vs {nb}: {vb:e}"));
    }
}
/// rename "mu2", "dp_dn1", "dmu_dt0", "dmu1_dn2" through an index map
fn rename_with(map: Vec<Option<usize>>) -> impl Fn(&str) -> Option<String> {
    move |name: &str| {
        let m = |i: usize| map.get(i).copied().flatten();
        if let Some(r) = name.strip_prefix("dmu_dt") {
            return Some(format!("dmu_dt{}", m(r.parse().ok()?)?));
        }
        if let Some(r) = name.strip_prefix("dp_dn") {
            return Some(format!("dp_dn{}", m(r.parse().ok()?)?));
        }
        if let Some(r) = name.strip_prefix("dmu") {
            let (i, j) = r.split_once("_dn")?;
            return Some(format!("dmu{}_dn{}", m(i.parse().ok()?)?, m(j.parse().ok()?)?));
        }
        if let Some(r) = name.strip_prefix("mu") {
            return Some(format!("mu{}", m(r.parse().ok()?)?));
        }
        Some(name.to_string())
    }
}

struct Family<P: Parameter> {
    id: String,
    recs: Vec<PureRecord<P::Pure>>,
    bin: Option<Array2<P::Binary>>,
    build: Arc<dyn Fn(P) -> ResidualModel + Send + Sync>,
    /// the same model family with a non-default option struct
    build_opts: Option<Arc<dyn Fn(P) -> ResidualModel + Send + Sync>>,
    x: Array1<f64>,
    tref: f64,
    /// permutations restricted to those keeping x charge neutral etc. (None = all)
    zero_pad: bool,
}

fn sub_matrix<B: Clone>(bin: &Option<Array2<B>>, idx: &[usize]) -> Option<Array2<B>> {
    bin.as_ref().map(|b| Array2::from_shape_fn((idx.len(), idx.len()), |(i, j)| b[[idx[i], idx[j]]].clone()))
}

fn states(tier: Tier) -> Vec<(f64, f64)> {
    // (T/Tref, eta); the thorough product contains the three quick states
    match tier {
        Tier::Quick => vec![(0.7, 0.6), (1.2, 0.2), (2.0, 1e-3)],
        Tier::Thorough => {
            let mut v = vec![];
            for t in [0.5, 0.7, 0.9, 1.2, 2.0, 3.0] {
                for e in [1e-6, 1e-3, 0.05, 0.2, 0.4, 0.6, 0.85] {
                    v.push((t, e));
                }
            }
            v
        }
    }
}

fn family_jobs<P: Parameter + 'static>(f: Family<P>, tier: Tier, jobs: &mut Vec<Job>)
where
    P::Pure: Send + Sync + 'static,
    P::Binary: Send + Sync + 'static,
{
    let n = f.recs.len();
    let f = Arc::new(f);
    let mk = {
        let f = f.clone();
        move |idx: &[usize], opts: bool| -> M {
            let recs: Vec<_> = idx.iter().map(|&i| f.recs[i].clone()).collect();
            let p = P::from_records(recs, sub_matrix(&f.bin, idx)).unwrap();
            let b = if opts { f.build_opts.as_ref().unwrap() } else { &f.build };
            Arc::new(b(p))
        }
    };
    let mk = Arc::new(mk);
    let all: Vec<usize> = (0..n).collect();
    let rho = {
        let (f, mk, all) = (f.clone(), mk.clone(), all.clone());
        move |x: &Array1<f64>| mk(&all, false).max_density(Some(&Moles::from_reduced(x.clone()))).unwrap().to_reduced().min(f64::MAX) * 1.0 + 0.0 * f.tref
    };
    let rho = Arc::new(rho);
    // ---- permutations
    for p in perms(n) {
        if p == all {
            continue;
        }
        let (f, mk, all, rho) = (f.clone(), mk.clone(), all.clone(), rho.clone());
        let key = format!("{}|perm={:?}", f.id, p);
        jobs.push((
            key,
            Box::new(move |rec: &mut Rec| {
                let a = mk(&all, false);
                let b = mk(&p, false);
                let xb = Array1::from_shape_fn(n, |k| f.x[p[k]]);
                // component i of a is at position pos[i] of b
                let mut pos = vec![None; n];
                for (k, &i) in p.iter().enumerate() {
                    pos[i] = Some(k);
                }
                for (tf, eta) in states(tier) {
                    let v = 1.0 / (rho(&f.x) * eta);
                    let pa = props(&a, f.tref * tf, v, &f.x);
                    let pb = props(&b, f.tref * tf, v, &xb);
                    compare(rec, "permutation", &pa, &pb, &rename_with(pos.clone()), 1e-10);
                }
                let ra = a.max_density(Some(&Moles::from_reduced(f.x.clone()))).unwrap().to_reduced();
                let rb = b.max_density(Some(&Moles::from_reduced(xb))).unwrap().to_reduced();
                rec.check("permutation", "max_density", (ra - rb).abs() / (1e-12 * ra), true, || format!("max_density {ra:e} vs {rb:e}"));
            }),
        ));
    }
    // ---- zero padding: a copy of component k appended/inserted at every position with zero moles
    if f.zero_pad {
        for pos in 0..=n {
            let (f, mk, all, rho) = (f.clone(), mk.clone(), all.clone(), rho.clone());
            let key = format!("{}|pad_at={pos}", f.id);
            jobs.push((
                key,
                Box::new(move |rec: &mut Rec| {
                    let a = mk(&all, false);
                    let mut idx = all.clone();
                    idx.insert(pos, 0); // extra copy of component 0
                    let b = mk(&idx, false);
                    let mut xb = f.x.to_vec();
                    xb.insert(pos, 0.0);
                    let xb = Array1::from_vec(xb);
                    let map: Vec<Option<usize>> = (0..n).map(|i| Some(if i >= pos { i + 1 } else { i })).collect();
                    for (tf, eta) in states(tier) {
                        let v = 1.0 / (rho(&f.x) * eta);
                        let pa = props(&a, f.tref * tf, v, &f.x);
                        let pb = props(&b, f.tref * tf, v, &xb);
                        compare(rec, "zero_padding", &pa, &pb, &rename_with(map.clone()), 1e-10);
                    }
                }),
            ));
        }
        // ---- splitting component k into two identical components
        for k in 0..n {
            for ratio in [0.5, 0.1] {
                let (f, mk, all, rho) = (f.clone(), mk.clone(), all.clone(), rho.clone());
                let key = format!("{}|split={k}|ratio={ratio}", f.id);
                jobs.push((
                    key,
                    Box::new(move |rec: &mut Rec| {
                        let a = mk(&all, false);
                        let mut idx = all.clone();
                        idx.push(k);
                        let b = mk(&idx, false);
                        let mut xb = f.x.to_vec();
                        xb[k] = f.x[k] * ratio;
                        xb.push(f.x[k] * (1.0 - ratio));
                        let xb = Array1::from_vec(xb);
                        let map: Vec<Option<usize>> = (0..n).map(Some).collect();
                        for (tf, eta) in states(tier) {
                            let v = 1.0 / (rho(&f.x) * eta);
                            let pa = props(&a, f.tref * tf, v, &f.x);
                            let pb = props(&b, f.tref * tf, v, &xb);
                            // only quantities that are not second derivatives in the split component carry over unchanged
                            let ren = rename_with(map.clone());
                            let ren2 = move |name: &str| if name.starts_with("dmu") && name.contains("_dn") { None } else { ren(name) };
                            compare(rec, "splitting", &pa, &pb, &ren2, 1e-10);
                            // both halves have the chemical potential of the original component
                            let g = |v: &[(String, f64, f64)], nm: &str| v.iter().find(|q| q.0 == nm).map(|q| q.1).unwrap();
                            let (m0, m1, m2) = (g(&pa, &format!("mu{k}")), g(&pb, &format!("mu{k}")), g(&pb, &format!("mu{n}")));
                            let lim = 1e-10 * m0.abs() + 1e-11 * f.tref * tf;
                            rec.check("splitting", &format!("mu_halves|T={tf}"), (m0 - m1).abs().max((m0 - m2).abs()) / lim, true, || format!("mu of split component: {m0:e} vs {m1:e}, {m2:e}"));
                        }
                    }),
                ));
            }
        }
    }
    // ---- subsets: subset(idx) of the full model behaves like the model built from those records
    let subsets = ordered_subsets(n);
    for idx in subsets {
        for opts in [false, true] {
            if opts && f.build_opts.is_none() {
                continue;
            }
            if tier == Tier::Quick && idx.len() > 2 && n > 3 {
                continue;
            }
            let (f, mk, all) = (f.clone(), mk.clone(), all.clone());
            let idx = idx.clone();
            let key = format!("{}|subset={:?}|opts={}", f.id, idx, opts);
            jobs.push((
                key,
                Box::new(move |rec: &mut Rec| {
                    let full = mk(&all, opts);
                    let sub: M = Arc::new(full.subset(&idx));
                    let direct = mk(&idx, opts);
                    let xs: Array1<f64> = idx.iter().map(|&i| f.x[i]).collect();
                    let xs = &xs / xs.sum();
                    let m = Moles::from_reduced(xs.clone());
                    let (r1, r2) = (sub.max_density(Some(&m)).unwrap().to_reduced(), direct.max_density(Some(&m)).unwrap().to_reduced());
                    rec.check("subset", "max_density", (r1 - r2).abs() / (1e-12 * r2), true, || format!("max_density of subset {r1:e} vs directly built model {r2:e} (options dropped?)"));
                    rec.check("subset", "components", if sub.components() == idx.len() { 0.0 } else { 2.0 }, true, || "wrong component count".into());
                    let ident = |name: &str| Some(name.to_string());
                    for (tf, eta) in states(tier) {
                        let v = 1.0 / (r2 * eta);
                        let pa = props(&sub, f.tref * tf, v, &xs);
                        let pb = props(&direct, f.tref * tf, v, &xs);
                        compare(rec, "subset", &pa, &pb, &ident, 1e-10);
                    }
                }),
            ));
        }
    }
    // ---- pure-component quantities derived inside mixture algorithms are those of the pure model
    {
        let (f, mk, all) = (f.clone(), mk.clone(), all.clone());
        let key = format!("{}|pure_in_mixture", f.id);
        jobs.push((
            key,
            Box::new(move |rec: &mut Rec| {
                let full = mk(&all, false);
                let t = Temperature::from_reduced(f.tref * 0.75);
                let vp = PhaseEquilibrium::vapor_pressure(&full, t);
                let vle = PhaseEquilibrium::vle_pure_comps(&full, t);
                let cps = State::critical_point_pure(&full, None, Default::default());
                for i in 0..n {
                    let pure = mk(&[i], false);
                    let p_direct = PhaseEquilibrium::pure(&pure, t, None, Default::default()).ok().map(|v| v.vapor().pressure(Contributions::Total).to_reduced());
                    let p_mix = vp[i].map(|p| p.to_reduced());
                    match (p_direct, p_mix) {
                        (Some(a), Some(b)) => rec.check("pure_in_mixture", &format!("vapor_pressure{i}"), (a - b).abs() / (1e-9 * a.abs()), true, || format!("vapor pressure of component {i}: pure model {a:e}, via mixture model {b:e}")),
                        (None, None) => rec.skip("no pure VLE at this temperature"),
                        (a, b) => rec.require("pure_in_mixture", &format!("vapor_pressure{i}"), false, || format!("pure model {a:?} vs via mixture {b:?}")),
                    }
                    if let (Some(a), Some(v)) = (p_direct, vle[i].as_ref()) {
                        let b = v.vapor().pressure(Contributions::Total).to_reduced();
                        rec.check("pure_in_mixture", &format!("vle_pure_comps{i}"), (a - b).abs() / (1e-9 * a.abs()), true, || format!("vle_pure_comps[{i}] p = {b:e} vs pure model {a:e}"));
                    }
                    if let Ok(cps) = &cps {
                        if let Ok(c) = State::critical_point(&pure, None, None, Default::default()) {
                            let (a, b) = (c.temperature.to_reduced(), cps[i].temperature.to_reduced());
                            rec.check("pure_in_mixture", &format!("critical_point_pure{i}"), (a - b).abs() / (1e-8 * a), true, || format!("Tc of component {i}: pure model {a}, critical_point_pure {b}"));
                        }
                    }
                }
                // ln_phi_pure_liquid at a liquid state of the mixture
                let m = Moles::from_reduced(f.x.clone());
                let rho = full.max_density(Some(&m)).unwrap() * 0.8;
                if let Ok(s) = State::new_nvt(&full, t, Moles::from_reduced(1.0) / rho, &m) {
                    if s.pressure(Contributions::Total).to_reduced() > 0.0 {
                        if let Ok(lp) = s.ln_phi_pure_liquid() {
                            for i in 0..n {
                                let pure = mk(&[i], false);
                                if let Ok(ps) = State::new_npt(&pure, t, s.pressure(Contributions::Total), &Moles::from_reduced(arr1(&[1.0])), feos_core::DensityInitialization::Liquid) {
                                    let a = ps.ln_phi()[0];
                                    rec.check("pure_in_mixture", &format!("ln_phi_pure_liquid{i}"), (a - lp[i]).abs() / (1e-8 * a.abs().max(1.0)), true, || format!("ln_phi_pure_liquid[{i}] = {} vs pure model {a}", lp[i]));
                                }
                            }
                            if let Ok(g) = s.ln_symmetric_activity_coefficient() {
                                let e = (&g - &(s.ln_phi() - &lp)).iter().fold(0.0f64, |a, b| a.max(b.abs()));
                                rec.check("pure_in_mixture", "activity_coefficient", e / 1e-12, true, || "ln gamma != ln phi - ln phi_pure".into());
                            }
                        }
                    }
                }
            }),
        ));
    }
}

fn kij_matrix<B: Clone + Default>(n: usize, f: impl Fn(usize, usize) -> B) -> Array2<B> {
    Array2::from_shape_fn((n, n), |(i, j)| if i == j { B::default() } else { f(i.min(j), i.max(j)) })
}

pub fn run(ctx: &mut Ctx) {
    let tier = ctx.tier;
    let mut jobs: Vec<Job> = vec![];
    // ---- Peng-Robinson, 3 components with k_ij
    {
        let p = zoo::pr_params(3, 0.0);
        let (recs, _) = p.records();
        family_jobs(
            Family::<PengRobinsonParameters> { id: "pr:3k".into(), recs: recs.to_vec(), bin: Some(kij_matrix(3, |i, j| 0.02 * (1 + i + 2 * j) as f64)), build: Arc::new(|p| ResidualModel::PengRobinson(PengRobinson::new(Arc::new(p)))), build_opts: None, x: arr1(&[0.2, 0.5, 0.3]), tref: 400.0, zero_pad: true },
            tier,
            &mut jobs,
        );
    }
    // ---- PC-SAFT
    let pc_opts = PcSaftOptions { max_eta: 0.45, max_iter_cross_assoc: 60, tol_cross_assoc: 1e-11, dq_variant: DQVariants::DQ44 };
    let pcs: Vec<(&str, Arc<PcSaftParameters>, Array1<f64>, f64)> = vec![
        ("pcsaft:methanol+water+ethanol", zoo::pcsaft_params(&[(&["methanol", "water", "ethanol"], "gross2002")]), arr1(&[0.3, 0.5, 0.2]), 512.0),
        ("pcsaft:acetone+co2+methanol", zoo::pcsaft_params(&[(&["acetone"], "gross2006"), (&["carbon dioxide"], "gross2005_fit"), (&["methanol"], "gross2002")]), arr1(&[0.3, 0.5, 0.2]), 508.0),
        ("pcsaft:methane+butane+octane+water", zoo::pcsaft_params(&[(&["methane", "butane", "octane"], "gross2001"), (&["water"], "gross2002")]), arr1(&[0.2, 0.3, 0.4, 0.1]), 400.0),
    ];
    for (id, p, x, tref) in pcs {
        let (recs, _) = p.records();
        let n = recs.len();
        if tier == Tier::Quick && n > 3 {
            continue;
        }
        let bin = kij_matrix(n, |i, j| PcSaftBinaryRecord::new(Some(0.01 * (1 + i + 2 * j) as f64), None, None));
        family_jobs(
            Family::<PcSaftParameters> { id: id.into(), recs: recs.to_vec(), bin: Some(bin), build: Arc::new(|p| ResidualModel::PcSaft(PcSaft::new(Arc::new(p)))), build_opts: Some(Arc::new(move |p| ResidualModel::PcSaft(PcSaft::with_options(Arc::new(p), pc_opts)))), x, tref, zero_pad: true },
            tier,
            &mut jobs,
        );
    }
    // PC-SAFT with binary association overrides (induced association)
    {
        let p = zoo::pcsaft_params(&[(&["water"], "gross2002"), (&["acetone"], "gross2006"), (&["propane"], "gross2001")]);
        let (recs, _) = p.records();
        let mut recs = recs.to_vec();
        // acetone gets one acceptor site without self-association parameters
        let mut j = serde_json::to_value(&recs[1]).unwrap();
        j["model_record"]["nb"] = json!(1.0);
        recs[1] = serde_json::from_value(j).unwrap();
        let bin = kij_matrix(3, |i, j| if (i, j) == (0, 1) { PcSaftBinaryRecord::new(Some(-0.05), Some(0.03), Some(1800.0)) } else { PcSaftBinaryRecord::new(Some(0.02), None, None) });
        family_jobs(
            Family::<PcSaftParameters> { id: "pcsaft:water+acetone(induced)+propane".into(), recs, bin: Some(bin), build: Arc::new(|p| ResidualModel::PcSaft(PcSaft::new(Arc::new(p)))), build_opts: None, x: arr1(&[0.5, 0.3, 0.2]), tref: 500.0, zero_pad: true },
            tier,
            &mut jobs,
        );
    }
    // PC-SAFT functional (FMT version is an option that subset must keep)
    {
        let p = zoo::pcsaft_params(&[(&["methanol", "water"], "gross2002"), (&["propane"], "gross2001")]);
        let (recs, _) = p.records();
        family_jobs(
            Family::<PcSaftParameters> {
                id: "pcsaftfunc:methanol+water+propane".into(),
                recs: recs.to_vec(),
                bin: None,
                build: Arc::new(|p| ResidualModel::PcSaftFunctional(PcSaftFunctional::new(Arc::new(p)))),
                build_opts: Some(Arc::new(move |p| ResidualModel::PcSaftFunctional(PcSaftFunctional::with_options(Arc::new(p), FMTVersion::KierlikRosinberg, pc_opts)))),
                x: arr1(&[0.3, 0.5, 0.2]),
                tref: 512.0,
                zero_pad: false,
            },
            tier,
            &mut jobs,
        );
    }
    // ---- SAFT-VR Mie with a spherical (m = 1) and chain components: the chain-free shortcut must apply per component
    {
        let p = zoo::vrmie(&["methane", "ethane", "propane"]);
        let (recs, _) = p.records();
        family_jobs(
            Family::<SaftVRMieParameters> { id: "saftvrmie:methane+ethane+propane".into(), recs: recs.to_vec(), bin: None, build: Arc::new(|p| ResidualModel::SaftVRMie(SaftVRMie::new(Arc::new(p)))), build_opts: None, x: arr1(&[0.3, 0.5, 0.2]), tref: 300.0, zero_pad: true },
            tier,
            &mut jobs,
        );
    }
    // ---- SAFT-VR Mie
    {
        let p = zoo::vrmie(&["ethane", "propane", "methanol"]);
        let (recs, _) = p.records();
        let o = SaftVRMieOptions { max_eta: 0.45, max_iter_cross_assoc: 60, tol_cross_assoc: 1e-11 };
        family_jobs(
            Family::<SaftVRMieParameters> { id: "saftvrmie:ethane+propane+methanol".into(), recs: recs.to_vec(), bin: None, build: Arc::new(|p| ResidualModel::SaftVRMie(SaftVRMie::new(Arc::new(p)))), build_opts: Some(Arc::new(move |p| ResidualModel::SaftVRMie(SaftVRMie::with_options(Arc::new(p), o)))), x: arr1(&[0.3, 0.5, 0.2]), tref: 350.0, zero_pad: true },
            tier,
            &mut jobs,
        );
    }
    // ---- SAFT-VRQ Mie
    {
        let p = zoo::vrq(&["hydrogen", "neon", "helium"], "aasen2019", Some("aasen2020_binary"));
        let (recs, bin) = p.records();
        let o = SaftVRQMieOptions { max_eta: 0.45, inc_nonadd_term: false };
        family_jobs(
            Family::<SaftVRQMieParameters> { id: "saftvrqmie:h2+ne+he".into(), recs: recs.to_vec(), bin: bin.cloned(), build: Arc::new(|p| ResidualModel::SaftVRQMie(SaftVRQMie::new(Arc::new(p)))), build_opts: Some(Arc::new(move |p| ResidualModel::SaftVRQMie(SaftVRQMie::with_options(Arc::new(p), o)))), x: arr1(&[0.3, 0.5, 0.2]), tref: 40.0, zero_pad: true },
            tier,
            &mut jobs,
        );
    }
    // ---- SAFT-VRQ Mie with different Feynman-Hibbs orders per component (orders 1 and 2 cannot be combined; 0 with 1 can): the order of an unlike pair is a
    // function of the two components, not of their positions
    {
        let p = zoo::vrq(&["hydrogen", "neon", "helium"], "aasen2019", Some("aasen2020_binary"));
        let (recs, bin) = p.records();
        let mut recs = recs.to_vec();
        for (k, fh) in [(0usize, 1), (1, 0), (2, 1)] {
            let mut v = serde_json::to_value(&recs[k]).unwrap();
            v["model_record"]["fh"] = json!(fh);
            recs[k] = serde_json::from_value(v).unwrap();
        }
        family_jobs(
            Family::<SaftVRQMieParameters> { id: "saftvrqmie:h2(fh1)+ne(fh0)+he(fh1)".into(), recs, bin: bin.cloned(), build: Arc::new(|p| ResidualModel::SaftVRQMie(SaftVRQMie::new(Arc::new(p)))), build_opts: None, x: arr1(&[0.3, 0.5, 0.2]), tref: 40.0, zero_pad: true },
            tier,
            &mut jobs,
        );
    }
    // ---- PeTS
    {
        let recs = zoo::pets_records();
        let o = PetsOptions { max_eta: 0.45 };
        family_jobs(
            Family::<PetsParameters> { id: "pets:2k".into(), recs, bin: Some(kij_matrix(2, |_, _| 0.05.into())), build: Arc::new(|p| ResidualModel::Pets(Pets::new(Arc::new(p)))), build_opts: Some(Arc::new(move |p| ResidualModel::Pets(Pets::with_options(Arc::new(p), o)))), x: arr1(&[0.4, 0.6]), tref: 130.0, zero_pad: true },
            tier,
            &mut jobs,
        );
    }
    // ---- uv-theory (BH supports mixtures)
    {
        let recs = zoo::uv_records();
        let o = UVTheoryOptions { max_eta: 0.45, perturbation: Perturbation::BarkerHenderson };
        let o2 = o.clone();
        family_jobs(
            Family::<UVTheoryParameters> {
                id: "uv:bh:2".into(),
                recs,
                bin: None,
                build: Arc::new(|p| ResidualModel::UVTheory(UVTheory::new(Arc::new(p)))),
                build_opts: Some(Arc::new(move |p| ResidualModel::UVTheory(UVTheory::with_options(Arc::new(p), o2.clone())))),
                x: arr1(&[0.4, 0.6]),
                tref: 180.0,
                zero_pad: true,
            },
            tier,
            &mut jobs,
        );
        let _ = o;
    }
    // ---- ePC-SAFT (permutation and subsets of the solvents; ions need neutral compositions)
    {
        let p = zoo::epc(&["water", "sodium ion", "chloride ion"]);
        let (recs, bin) = p.records();
        let o = ElectrolytePcSaftOptions { max_eta: 0.45, max_iter_cross_assoc: 60, tol_cross_assoc: 1e-11, epcsaft_variant: ElectrolytePcSaftVariants::Advanced };
        family_jobs(
            Family::<ElectrolytePcSaftParameters> {
                id: "epcsaft:water+na+cl".into(),
                recs: recs.to_vec(),
                bin: bin.cloned(),
                build: Arc::new(|p| ResidualModel::ElectrolytePcSaft(ElectrolytePcSaft::new(Arc::new(p)))),
                build_opts: Some(Arc::new(move |p| ResidualModel::ElectrolytePcSaft(ElectrolytePcSaft::with_options(Arc::new(p), o)))),
                x: arr1(&[0.96, 0.02, 0.02]),
                tref: 400.0,
                zero_pad: false,
            },
            tier,
            &mut jobs,
        );
    }
    // ---- ePC-SAFT with the tabulated permittivity of the solvent given in descending temperature order (the constructor sorts
    // the table; sorting must not depend on where the solvent stands among the components)
    {
        let p = zoo::epc(&["water", "sodium ion", "chloride ion"]);
        let (recs, bin) = p.records();
        let mut recs = recs.to_vec();
        let mut v = serde_json::to_value(&recs[0]).unwrap();
        v["model_record"]["permittivity_record"]["ExperimentalData"]["data"].as_array_mut().unwrap().reverse();
        recs[0] = serde_json::from_value(v).unwrap();
        family_jobs(
            Family::<ElectrolytePcSaftParameters> {
                id: "epcsaft:water(unsorted permittivity table)+na+cl".into(),
                recs,
                bin: bin.cloned(),
                build: Arc::new(|p| ResidualModel::ElectrolytePcSaft(ElectrolytePcSaft::new(Arc::new(p)))),
                build_opts: None,
                x: arr1(&[0.96, 0.02, 0.02]),
                tref: 400.0,
                zero_pad: false,
            },
            tier,
            &mut jobs,
        );
    }
    // ---- Henry's law constants: solutes are the components with zero mole fraction, wherever they stand among the solvents
    {
        let p = zoo::pcsaft_with_kij(&zoo::pcsaft_params(&[(&["methane", "butane", "hexane", "propane"], "gross2001")]), 0.02);
        let (recs, bin) = p.records();
        let (recs, bin) = (recs.to_vec(), bin.cloned());
        // (x over the named components; zero = solute)
        for (tag, x0) in [("1 solute, 2 solvents", vec![0.0, 0.35, 0.65]), ("2 solutes, 2 solvents", vec![0.0, 0.35, 0.65, 0.0]), ("1 solute, 3 solvents", vec![0.0, 0.3, 0.5, 0.2])] {
            let n = x0.len();
            for pm in perms(n) {
                let (recs, bin, x0) = (recs.clone(), bin.clone(), x0.clone());
                jobs.push((
                    format!("henry|{tag}|perm={pm:?}"),
                    Box::new(move |rec: &mut Rec| {
                        let idx0: Vec<usize> = (0..n).collect();
                        let mk = |idx: &[usize]| -> Arc<ResidualModel> {
                            let r: Vec<_> = idx.iter().map(|&i| recs[i].clone()).collect();
                            Arc::new(ResidualModel::PcSaft(PcSaft::new(Arc::new(PcSaftParameters::from_records(r, sub_matrix(&bin, idx)).unwrap()))))
                        };
                        let t = 320.0 * KELVIN;
                        let base = State::henrys_law_constant(&mk(&idx0), t, &Array1::from_vec(x0.clone()));
                        let xp: Vec<f64> = pm.iter().map(|&i| x0[i]).collect();
                        let permuted = State::henrys_law_constant(&mk(&pm), t, &Array1::from_vec(xp));
                        match (base, permuted) {
                            (Ok(b), Ok(q)) => {
                                // the result lists the solutes only, in the order in which they stand in the system
                                let (b, q) = (b.to_reduced(), q.to_reduced());
                                let solutes0: Vec<usize> = (0..n).filter(|&i| x0[i] == 0.0).collect();
                                let solutes_p: Vec<usize> = pm.iter().cloned().filter(|&i| x0[i] == 0.0).collect();
                                rec.require("henry_permutation", "length", b.len() == solutes0.len() && q.len() == solutes_p.len(), || format!("{} / {} constants for {} solutes", b.len(), q.len(), solutes0.len()));
                                for (kq, &i) in solutes_p.iter().enumerate() {
                                    let kb = solutes0.iter().position(|&j| j == i).unwrap();
                                    rec.check("henry_permutation", &format!("component{i}"), ((q[kq] - b[kb]) / b[kb]).abs() / 1e-8, true, || format!("Henry constant of component {i}: {:e} in the original order, {:e} in the permuted system", b[kb], q[kq]));
                                }
                            }
                            (Err(_), Err(_)) => rec.skip("Henry constant cannot be computed (conditional)"),
                            _ => rec.require("henry_permutation", "found", false, || "Henry constant is found in one component order only".into()),
                        }
                    }),
                ));
            }
        }
    }
    // ---- gc-PC-SAFT (heterosegmented): relabelling through the order of substance names, subset
    for names in [vec!["ethanol", "propane", "1-butanol"], vec!["methyl propanoate", "hexane", "ethanol"]] {
        let n = names.len();
        let x = arr1(&[0.3, 0.5, 0.2]);
        for p in perms(n) {
            if p == (0..n).collect::<Vec<_>>() {
                continue;
            }
            let names = names.clone();
            let x = x.clone();
            jobs.push((
                format!("gcpcsaft:{}|perm={:?}", names.join("+"), p),
                Box::new(move |rec: &mut Rec| {
                    let a: M = Arc::new(ResidualModel::GcPcSaft(zoo::gc_eos(&names)));
                    let nb: Vec<&str> = p.iter().map(|&i| names[i]).collect();
                    let b: M = Arc::new(ResidualModel::GcPcSaft(zoo::gc_eos(&nb)));
                    let xb = Array1::from_shape_fn(n, |k| x[p[k]]);
                    let mut pos = vec![None; n];
                    for (k, &i) in p.iter().enumerate() {
                        pos[i] = Some(k);
                    }
                    let rho = a.max_density(Some(&Moles::from_reduced(x.clone()))).unwrap().to_reduced();
                    for (tf, eta) in states(tier) {
                        let pa = props(&a, 500.0 * tf, 1.0 / (rho * eta), &x);
                        let pb = props(&b, 500.0 * tf, 1.0 / (rho * eta), &xb);
                        compare(rec, "permutation", &pa, &pb, &rename_with(pos.clone()), 1e-10);
                    }
                }),
            ));
        }
        for idx in ordered_subsets(n) {
            let names = names.clone();
            let x = x.clone();
            jobs.push((
                format!("gcpcsaft:{}|subset={:?}", names.join("+"), idx),
                Box::new(move |rec: &mut Rec| {
                    let full: M = Arc::new(ResidualModel::GcPcSaft(zoo::gc_eos(&names)));
                    let sub: M = Arc::new(full.subset(&idx));
                    let nb: Vec<&str> = idx.iter().map(|&i| names[i]).collect();
                    let direct: M = Arc::new(ResidualModel::GcPcSaft(zoo::gc_eos(&nb)));
                    let xs: Array1<f64> = idx.iter().map(|&i| x[i]).collect();
                    let xs = &xs / xs.sum();
                    let m = Moles::from_reduced(xs.clone());
                    let (r1, r2) = (sub.max_density(Some(&m)).unwrap().to_reduced(), direct.max_density(Some(&m)).unwrap().to_reduced());
                    rec.check("subset", "max_density", (r1 - r2).abs() / (1e-11 * r2), true, || format!("max_density {r1:e} vs {r2:e}"));
                    for (tf, eta) in states(tier) {
                        let pa = props(&sub, 500.0 * tf, 1.0 / (r2 * eta), &xs);
                        let pb = props(&direct, 500.0 * tf, 1.0 / (r2 * eta), &xs);
                        compare(rec, "subset", &pa, &pb, &|s: &str| Some(s.to_string()), 1e-10);
                    }
                }),
            ));
        }
    }
    let _ = (pfile(""), IdentifierOption::Name);
    let _: Option<feos::gc_pcsaft::GcPcSaftEosParameters> = None::<feos::gc_pcsaft::GcPcSaftEosParameters>.map(|p| p.subset(&[0]));
    ctx.rule = format!("for every model family (PR, PC-SAFT incl. k_ij / association overrides / polar, PC-SAFT functional, SAFT-VR Mie, SAFT-VRQ Mie, PeTS, uv-theory, ePC-SAFT, gc-PC-SAFT): all n! permutations (records, binary matrix and moles together), an extra zero-mole component at every position, every component split into two identical ones (ratios 0.5, 0.1), every ordered subset of indices through Components::subset with default and with non-default option structs, pure-component helpers (vapor_pressure, vle_pure_comps, critical_point_pure, ln_phi_pure_liquid); each on {} states; oracle: differential (relabelled model vs original / subset vs model built directly from those records with the same options), band 1e-10 + 1e-11 ideal-gas floor; jobs = {}", states(tier).len(), jobs.len());
    ctx.run(&jobs, |j| j.0.clone(), |j, rec| (j.1)(rec));
    ctx.assume("component counts 1..4; three states per family");
}
