//! C07 — stability verdicts are sound and separate one-phase from two-phase feeds
use super::c15::{physical_critical_point, pure_cases, PureCase};
use super::mix::*;
use crate::engine::{Ctx, Rec, Tier};
use feos::ResidualModel;
use feos_core::{Contributions, DensityInitialization, EosError, PhaseEquilibrium, ReferenceSystem, State};
use quantity::*;
use serde_json::json;

type St = State<ResidualModel>;

/// tangent plane distance of trial phase w to state z, recomputed from fugacity coefficients
fn tpd(z: &St, w: &St) -> f64 {
    let d = z.molefracs.mapv(f64::ln) + z.ln_phi();
    (&w.molefracs * &(w.molefracs.mapv(f64::ln) + w.ln_phi() - d)).sum()
}

fn expect_stable(rec: &mut Rec, sub: &str, s: &St) {
    match s.stability_analysis(Default::default()) {
        Ok(trials) => {
            for (k, w) in trials.iter().enumerate() {
                let t = tpd(s, w);
                rec.require("tpd_negative", &format!("{sub}|{k}"), t < 0.0, || format!("returned trial phase has tpd = {t:e} >= 0"));
            }
            rec.require("stable", sub, trials.is_empty(), || format!("state expected stable is reported unstable ({} trial phases, tpd = {:?})", trials.len(), trials.iter().map(|w| tpd(s, w)).collect::<Vec<_>>()));
        }
        Err(_) => rec.skip("stability analysis fails (conditional)"),
    }
}

fn expect_unstable(rec: &mut Rec, sub: &str, s: &St) {
    match s.stability_analysis(Default::default()) {
        Ok(trials) => {
            for (k, w) in trials.iter().enumerate() {
                let t = tpd(s, w);
                rec.require("tpd_negative", &format!("{sub}|{k}"), t < 0.0, || format!("returned trial phase has tpd = {t:e} >= 0"));
                // same T and p as the analysed state
                let dp = ((w.pressure(Contributions::Total) - s.pressure(Contributions::Total)) / s.pressure(Contributions::Total)).into_value().abs();
                rec.check("trial_same_Tp", &format!("{sub}|{k}"), if w.temperature == s.temperature { dp / 1e-6 } else { 2.0 }, true, || format!("trial phase at other T or p (dp = {dp:e})"));
            }
            rec.require("unstable", sub, !trials.is_empty(), || "feed strictly inside the two-phase region is reported stable".to_string());
        }
        Err(_) => rec.skip("stability analysis fails (conditional)"),
    }
}

struct Case {
    pair: Pair,
    tr: f64,
    x: f64,
}

fn case(c: &Case, rec: &mut Rec) {
    let eos = &c.pair.eos;
    let t = Temperature::from_reduced(c.pair.tc_low() * c.tr);
    let xs = xvec(c.x);
    let feed = &xs * MOL;
    let (Ok(b), Ok(d)) = (PhaseEquilibrium::bubble_point(eos, t, &xs, None, None, Default::default()), PhaseEquilibrium::dew_point(eos, t, &xs, None, None, Default::default())) else {
        rec.skip("bubble or dew point not found (C05's domain)");
        return;
    };
    // phases delivered by converged calculations are stable
    for (nm, v) in [("bubble", &b), ("dew", &d)] {
        expect_stable(rec, &format!("{nm}|vapor"), v.vapor());
        expect_stable(rec, &format!("{nm}|liquid"), v.liquid());
    }
    let (pb, pd) = (b.vapor().pressure(Contributions::Total), d.vapor().pressure(Contributions::Total));
    // outside the envelope with a 2 % margin
    for (nm, p) in [("below_dew", pd * 0.98), ("above_bubble", pb * 1.02)] {
        if let Ok(s) = State::new_npt(eos, t, p, &feed, DensityInitialization::None) {
            expect_stable(rec, nm, &s);
        } else {
            rec.skip("no state outside the envelope");
        }
    }
    if ((pb - pd) / pb).into_value() < 1e-3 {
        rec.skip("envelope too narrow");
        return;
    }
    for w in WS {
        let p = pd + (pb - pd) * w;
        let nm = format!("inside|w={w}");
        if let Ok(s) = State::new_npt(eos, t, p, &feed, DensityInitialization::None) {
            expect_unstable(rec, &nm, &s);
        }
        match PhaseEquilibrium::tp_flash(eos, t, p, &feed, None, Default::default(), None) {
            Ok(f) => {
                expect_stable(rec, &format!("{nm}|flash_vapor"), f.vapor());
                expect_stable(rec, &format!("{nm}|flash_liquid"), f.liquid());
            }
            Err(EosError::NoPhaseSplit) => rec.require("flash_splits", &nm, false, || "tp_flash strictly inside the envelope returns NoPhaseSplit".into()),
            Err(_) => rec.skip("tp_flash fails with another error (C05's findings)"),
        }
    }
    rec.sample(json!({"pair": c.pair.id, "Tr": c.tr, "x": c.x, "p_dew": pd.to_reduced(), "p_bub": pb.to_reduced()}));
}

fn pure_case(cases: &[PureCase], c: &(usize, f64), rec: &mut Rec) {
    let pc = &cases[c.0];
    let Ok(eos) = (pc.build)() else { return };
    let Some(cp) = physical_critical_point(&eos) else {
        rec.skip("no critical point");
        return;
    };
    let t = cp.temperature * c.1;
    let Ok(vle) = PhaseEquilibrium::pure(&eos, t, None, Default::default()) else {
        rec.skip("no VLE (C04's findings)");
        return;
    };
    let (v, l) = (vle.vapor(), vle.liquid());
    expect_stable(rec, "saturated_vapor", v);
    expect_stable(rec, "saturated_liquid", l);
    for q in 0..24 {
        let w = (q as f64 + 0.5) / 24.0;
        let rho = v.density * 0.5 * (l.density * 1.5 / (v.density * 0.5)).into_value().powf(w);
        let Ok(s) = State::new_pure(&eos, t, rho) else { continue };
        let inside = rho > v.density * 1.02 && rho < l.density * 0.98;
        let outside = rho < v.density * 0.98 || rho > l.density * 1.02;
        if inside {
            // a pure state between the coexisting densities at *its own* pressure: unstable only if that pressure
            // admits the other phase, which holds between the binodal densities
            match s.stability_analysis(Default::default()) {
                Ok(tr) => {
                    for (k, wst) in tr.iter().enumerate() {
                        let tp = tpd(&s, wst);
                        rec.require("tpd_negative", &format!("grid{q}|{k}"), tp < 0.0, || format!("trial tpd = {tp:e}"));
                    }
                    rec.require("unstable", &format!("grid{q}"), !tr.is_empty(), || format!("pure state at rho = {rho} between the coexisting densities ({}, {}) is reported stable", v.density, l.density));
                }
                Err(_) => rec.skip("stability analysis fails (conditional)"),
            }
        } else if outside {
            expect_stable(rec, &format!("grid{q}"), &s);
        }
    }
}

pub fn run(ctx: &mut Ctx) {
    let tier = ctx.tier;
    let ps = pairs(tier, 1.5);
    let mut cases = vec![];
    for p in &ps {
        for tr in TRS {
            for x in XS {
                cases.push(Case { pair: p.clone(), tr, x });
            }
        }
    }
    ctx.run(&cases, |c| format!("{}|Tr={}|x={}", c.pair.id, c.tr, c.x), case);
    let pures = pure_cases();
    let mut pcases = vec![];
    for (k, c) in pures.iter().enumerate() {
        if c.vle_excepted {
            continue;
        }
        let gs = ["pcsaft/gross2001.json", "pcsaft/gross2002.json", "pcsaft/gross2006.json", "pcsaft/gross2005_fit.json"].contains(&c.file.as_str());
        let take = match tier {
            Tier::Quick => gs && k % 6 == 0,
            Tier::Thorough => gs || k % 10 == 0,
        };
        if take {
            for tr in tier.pick(vec![0.6, 0.9], vec![0.5, 0.6, 0.7, 0.8, 0.9, 0.97]) {
                pcases.push((k, tr));
            }
        }
    }
    ctx.run(&pcases, |c| format!("pure|{}|{}|Tr={}", pures[c.0].file, pures[c.0].name, c.1), |c, rec| pure_case(&pures, c, rec));
    ctx.extra("pairs", json!(ps.len()));
    ctx.rule = format!("hydrocarbon pairs with T_c ratio < 1.5 ({}{}) x T in Tc_low x {:?} x x in {:?}: states 2 % below the dew and above the bubble pressure and the phases of converged bubble / dew / flash calculations must be reported stable, feeds at {:?} of the way from dew to bubble pressure unstable with tp_flash not returning NoPhaseSplit; every returned trial phase has tpd = sum w_i (ln w_i + ln phi_i(w) - ln z_i - ln phi_i(z)) < 0 recomputed from ln_phi and shares T, p with the analysed state; pure fluids ({} (record, T_r) cases): 24-point density grid across the binodal classified with the saturated densities (2 % margin)", ps.len(), if tier == Tier::Quick { ", every 16th" } else { "" }, TRS, XS, WS, pcases.len());
    ctx.assume("lattice as stated; default solver options");
}
