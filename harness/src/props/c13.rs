//! C13 — virial coefficients equal the low-density limit of the compressibility factor
use super::common::*;
use crate::engine::{rich, Ctx, Rec, Tier};
use crate::zoo::{self, Entry};
use feos_core::{Contributions, ReferenceSystem, Residual};
use ndarray::Array1;
use quantity::*;
use serde_json::json;

struct Case {
    entry: Entry,
    x: Array1<f64>,
    tf: f64,
}

/// quadratic extrapolation of f(rho) = (Z-1)/rho from rho = r, 2r, 4r: returns (B, C) estimates
fn extrapolate(f: &dyn Fn(f64) -> f64, r: f64) -> (f64, f64) {
    let (f1, f2, f4) = (f(r), f(2.0 * r), f(4.0 * r));
    let b = (8.0 * f1 - 6.0 * f2 + f4) / 3.0;
    let dr2 = ((f4 - f2) - 2.0 * (f2 - f1)) / 6.0;
    let c = ((f2 - f1) - 3.0 * dr2) / r;
    (b, c)
}

fn case(c: &Case, rec: &mut Rec) {
    let eos = &c.entry.eos;
    let t = c.entry.tref * c.tf;
    let tt = Temperature::from_reduced(t);
    let m = Moles::from_reduced(c.x.clone());
    let rmax = rho_scale(&c.entry, &c.x);
    let get = |f: &dyn Fn(Temperature) -> f64, tk: f64| f(Temperature::from_reduced(tk));
    let b_of = |tq: Temperature| eos.second_virial_coefficient(tq, Some(&m)).map(|v| v.to_reduced()).unwrap_or(f64::NAN);
    let c_of = |tq: Temperature| eos.third_virial_coefficient(tq, Some(&m)).map(|v| v.to_reduced()).unwrap_or(f64::NAN);
    let b = b_of(tt);
    let cc = c_of(tt);
    let bt = eos.second_virial_coefficient_temperature_derivative(tt, Some(&m)).map(|v| v.to_reduced()).unwrap_or(f64::NAN);
    let ct = eos.third_virial_coefficient_temperature_derivative(tt, Some(&m)).map(|v| v.to_reduced()).unwrap_or(f64::NAN);
    for (nm, v) in [("B", b), ("C", cc), ("dB_dT", bt), ("dC_dT", ct)] {
        rec.require("finite", nm, v.is_finite(), || format!("{nm} = {v}"));
    }
    // virial coefficients are intensive: the same composition given as another amount of substance (and, for a pure
    // component, as `None`) gives the same four numbers
    for (tag, mm) in [("2.5 mol", Some(Moles::from_reduced(&c.x * 2.5))), ("1e-3 mol", Some(Moles::from_reduced(&c.x * 1e-3))), ("None", None)] {
        // (the virial coefficients of the Helmholtz energy functionals are dominated by cancellation noise at zero density -
        // recorded findings of the limit oracle - so that no two evaluations of them agree)
        if mm.is_none() && c.x.len() != 1 || c.entry.functional {
            continue;
        }
        let q = [
            eos.second_virial_coefficient(tt, mm.as_ref()).map(|v| v.to_reduced()).unwrap_or(f64::NAN),
            eos.third_virial_coefficient(tt, mm.as_ref()).map(|v| v.to_reduced()).unwrap_or(f64::NAN),
            eos.second_virial_coefficient_temperature_derivative(tt, mm.as_ref()).map(|v| v.to_reduced()).unwrap_or(f64::NAN),
            eos.third_virial_coefficient_temperature_derivative(tt, mm.as_ref()).map(|v| v.to_reduced()).unwrap_or(f64::NAN),
        ];
        for ((nm, v0), v) in [("B", b), ("C", cc), ("dB_dT", bt), ("dC_dT", ct)].into_iter().zip(q) {
            if v0.is_finite() {
                rec.check("amount_invariant", &format!("{nm}|{tag}"), (v - v0).abs() / (1e-10 * v0.abs() + 1e-300), v0 != 0.0, || format!("{nm} = {v0:e} for 1 mol in total, {v:e} for {tag}"));
            }
        }
    }
    // (Z-1)/rho from real finite-density states; Z_res avoids the cancellation in Z - 1
    let f = |rho: f64| mk(eos, t, 1.0 / rho, &c.x).compressibility(Contributions::Residual) / rho;
    // natural scale of B: the excluded volume 1/rho_max
    let bs = 1.0 / rmax;
    // the linear regime of (Z-1)/rho starts at lower densities the larger |B| is (strong association at
    // low temperature: B ~ -1e8): lower the ladder until the extrapolation is converged
    let mut done_b = false;
    let mut done_c = false;
    for r0f in [1e-4, 1e-5, 1e-6, 1e-7, 1e-8] {
        let r0 = r0f * rmax;
        let (b1, c1) = extrapolate(&f, r0);
        let (b2, c2) = extrapolate(&f, 0.5 * r0);
        if !done_b && b.is_finite() && b2.is_finite() && (b1 - b2).abs() <= 1e-4 * b2.abs().max(bs) {
            let e = (b1 - b2).abs();
            let lim = 50.0 * e + 1e-7 * b.abs().max(bs);
            rec.check("B_limit", "", (b - b2).abs() / lim, b.abs() > 1e-6 * bs, || format!("second_virial_coefficient = {b:e}, lim (Z-1)/rho = {b2:e} (extrapolation estimate {e:e}, ladder {r0f:e} rho_max)"));
            done_b = true;
        }
        if !done_c && cc.is_finite() && c2.is_finite() && (c1 - c2).abs() <= 1e-3 * c2.abs().max(bs * bs) {
            let e = (c1 - c2).abs();
            let lim = 50.0 * e + 1e-5 * cc.abs().max(bs * bs);
            rec.check("C_limit", "", (cc - c2).abs() / lim, cc.abs() > 1e-6 * bs * bs, || format!("third_virial_coefficient = {cc:e}, lim d((Z-1)/rho)/drho = {c2:e} (extrapolation estimate {e:e}, ladder {r0f:e} rho_max)"));
            done_c = true;
        }
    }
    if b.is_finite() && !done_b {
        rec.skip("zero-density limit of (Z-1)/rho not resolved on any ladder");
    }
    if cc.is_finite() && !done_c {
        rec.skip("zero-density limit of d((Z-1)/rho)/drho not resolved on any ladder");
    }
    let (b2, c2) = extrapolate(&f, 0.5e-4 * rmax);
    // temperature derivatives vs Richardson differences of the coefficients themselves
    if bt.is_finite() && b.is_finite() {
        let (r, e) = rich(&|h| get(&b_of, t + h), 1e-3 * t);
        let sc = bt.abs().max(b.abs() / t).max(bs / t);
        if r.is_finite() {
            rec.check("dB_dT", "", (bt - r).abs() / (50.0 * e + 1e-7 * sc), bt.abs() > 1e-6 * bs / t, || format!("dB/dT = {bt:e}, difference of B(T) = {r:e} (estimate {e:e})"));
        }
    }
    if ct.is_finite() && cc.is_finite() {
        let (r, e) = rich(&|h| get(&c_of, t + h), 1e-3 * t);
        let sc = ct.abs().max(cc.abs() / t).max(bs * bs / t);
        if r.is_finite() {
            rec.check("dC_dT", "", (ct - r).abs() / (50.0 * e + 1e-7 * sc), ct.abs() > 1e-6 * bs * bs / t, || format!("dC/dT = {ct:e}, difference of C(T) = {r:e} (estimate {e:e})"));
        }
    }
    rec.sample(json!({"model": c.entry.id, "x": xs(&c.x), "T": t, "B": b, "B_limit": b2, "C": cc, "C_limit": c2}));
}

pub fn run(ctx: &mut Ctx) {
    let z: Vec<Entry> = zoo::zoo(ctx.tier).into_iter().filter(|e| !e.electrolyte).collect();
    let tfs: Vec<f64> = ctx.tier.pick(vec![0.7, 1.5, 3.0], vec![0.4, 0.5, 0.6, 0.7, 0.8, 0.9, 1.0, 1.2, 1.5, 2.0, 3.0, 5.0]);
    let mut cases = vec![];
    for e in &z {
        for x in e.compositions(if e.n > 1 { Tier::Thorough } else { ctx.tier }).into_iter().take(ctx.tier.pick(2, 9)) {
            for &tf in &tfs {
                cases.push(Case { entry: e.clone(), x: x.clone(), tf });
            }
        }
    }
    ctx.rule = format!("non-electrolyte zoo({}) x compositions x T/Tref {:?} x {{B, C, dB/dT, dC/dT}}; all four independent of the amount of substance handed in (1 mol, 2.5 mol, 1e-3 mol, None); oracle: B = lim (Z-1)/rho and C = lim d((Z-1)/rho)/drho by quadratic extrapolation from real states at rho = {{1,2,4}} x 1e-4 rho_max (repeated at half the densities for the error estimate e; accepted iff |coef - limit| <= 50 e + 1e-7 scale); temperature derivatives vs Richardson differences of the coefficient; all four finite", z.len(), tfs);
    ctx.extra("models", json!(z.iter().map(|e| e.id.clone()).collect::<Vec<_>>()));
    ctx.run(&cases, |c| format!("{}|x={}|T={}", c.entry.id, xs(&c.x), c.tf), case);
    ctx.assume("electrolyte mixtures excluded (the coefficient does not exist); temperatures and compositions on the lattice");
}
