//! C08 — independent implementations of the same model agree (DESIGN §5 C08)
use super::common::{eta_factors, t_factors, xs};
use crate::engine::{Ctx, Rec};
use crate::zoo::{self, pfile};
use feos::association::Association;
use feos::epcsaft::{ElectrolytePcSaft, ElectrolytePcSaftParameters, ElectrolytePcSaftRecord};
use feos::gc_pcsaft::{GcPcSaft, GcPcSaftFunctional};
use feos::hard_sphere::{FMTVersion, HardSphereProperties};
use feos::ideal_gas::IdealGasModel;
use feos::pcsaft::{PcSaft, PcSaftFunctional, PcSaftParameters, PcSaftRecord};
use feos::pets::{Pets, PetsFunctional, PetsParameters};
use feos::saftvrmie::{SaftVRMie, SaftVRMieParameters, SaftVRMieRecord};
use feos::saftvrqmie::{SaftVRQMie, SaftVRQMieFunctional, SaftVRQMieParameters, SaftVRQMieRecord};
use feos::ResidualModel;
use feos_core::cubic::PengRobinson;
use feos_core::parameter::{ChemicalRecord, Identifier, IdentifierOption, Parameter, ParameterHetero, PureRecord, SegmentRecord};
use feos_core::{Contributions, Derivative, EquationOfState, ReferenceSystem, Residual, State};
use ndarray::{arr1, Array1};
use quantity::*;
use serde_json::json;
use std::sync::Arc;

/// (name, value, ideal-gas magnitude) of A and all first/second-order keys plus the two third-order ones
pub fn props<E: Residual>(eos: &Arc<E>, t: f64, v: f64, n: &Array1<f64>) -> Vec<(String, f64, f64)> {
    let s = State::new_nvt(eos, Temperature::from_reduced(t), Volume::from_reduced(v), &Moles::from_reduced(n.clone())).unwrap();
    let nt = n.sum();
    let i0 = nt * t;
    let mut o = vec![
        ("A".to_string(), s.residual_helmholtz_energy().to_reduced(), i0),
        ("p".to_string(), s.pressure(Contributions::Residual).to_reduced(), i0 / v),
        ("s".to_string(), s.residual_entropy().to_reduced(), nt),
        ("dp_dv".to_string(), s.dp_dv(Contributions::Residual).to_reduced(), i0 / v / v),
        ("dp_dt".to_string(), s.dp_dt(Contributions::Residual).to_reduced(), nt / v),
        ("ds_dt".to_string(), s.ds_res_dt().to_reduced(), nt / t),
        ("d2p_dv2".to_string(), s.d2p_dv2(Contributions::Residual).to_reduced(), i0 / v / v / v),
        ("d2s_dt2".to_string(), s.d2s_res_dt2().to_reduced(), nt / t / t),
    ];
    let mu = s.residual_chemical_potential().to_reduced();
    let dmu = s.dmu_dni(Contributions::Residual).to_reduced();
    let dpn = s.dp_dni(Contributions::Residual).to_reduced();
    let dmt = s.dmu_res_dt().to_reduced();
    for i in 0..n.len() {
        o.push((format!("mu{i}"), mu[i], t));
        o.push((format!("dp_dn{i}"), dpn[i], t / v));
        o.push((format!("dmu_dt{i}"), dmt[i], 1.0));
        for j in 0..n.len() {
            o.push((format!("dmu{i}_dn{j}"), dmu[[i, j]], t / nt));
        }
    }
    o
}

struct Pair {
    id: String,
    /// relative band of this pair (exact pairs: 1e-10)
    band: f64,
    /// ideal-gas floor factor
    floor: f64,
    n: usize,
    tref: f64,
    rho_max: Box<dyn Fn(&Array1<f64>) -> f64 + Send + Sync>,
    eval: Box<dyn Fn(f64, f64, &Array1<f64>) -> (Vec<(String, f64, f64)>, Vec<(String, f64, f64)>) + Send + Sync>,
    quick: bool,
    /// record sweeps: many pairs on a small state lattice
    small: bool,
}

fn pair<A: Residual + 'static, B: Residual + 'static>(id: &str, a: Arc<A>, b: Arc<B>, n: usize, tref: f64, band: f64, floor: f64, quick: bool) -> Pair {
    let a2 = a.clone();
    Pair {
        id: id.replace("|", "/"),
        band,
        floor,
        n,
        tref,
        rho_max: Box::new(move |x| a2.max_density(Some(&Moles::from_reduced(x.clone()))).unwrap().to_reduced()),
        eval: Box::new(move |t, v, x| (props(&a, t, v, x), props(&b, t, v, x))),
        quick,
        small: false,
    }
}

fn transcode<T: serde::Serialize, U: serde::de::DeserializeOwned>(r: &T) -> U {
    serde_json::from_str(&serde_json::to_string(r).unwrap()).unwrap()
}

fn pairs() -> Vec<Pair> {
    let mut v = vec![];
    // ---- functional (bulk) vs equation of state
    let sets: Vec<(&str, Arc<PcSaftParameters>, f64)> = vec![
        ("propane", zoo::pcsaft_params(&[(&["propane"], "gross2001")]), 370.0),
        ("hexane", zoo::pcsaft_params(&[(&["hexane"], "gross2001")]), 507.0),
        ("water", zoo::pcsaft_params(&[(&["water"], "gross2002")]), 647.0),
        ("methanol+water+ethanol", zoo::pcsaft_params(&[(&["methanol", "water", "ethanol"], "gross2002")]), 512.0),
        ("acetone+co2", zoo::pcsaft_params(&[(&["acetone"], "gross2006"), (&["carbon dioxide"], "gross2005_fit")]), 508.0),
        ("propane+hexane:k", zoo::pcsaft_with_kij(&zoo::pcsaft_params(&[(&["propane", "hexane"], "gross2001")]), 0.03), 370.0),
    ];
    // association schemes with unequal site counts (3B, 1A/2B, ...): the closed-form 1A/1B solution is implemented twice
    // (equation of state and functional) and both must treat the two site types asymmetrically in the same way
    let mut sets = sets;
    for (na, nb, nc) in [(2.0, 1.0, 0.0), (1.0, 2.0, 0.0), (3.0, 1.0, 0.0), (2.0, 2.0, 0.0), (0.0, 0.0, 1.0), (2.0, 1.0, 1.0)] {
        let rec = |na: f64, nb: f64, nc: f64| PureRecord::new(Identifier::new(None, Some(&format!("assoc({na},{nb},{nc})")), None, None, None, None), 32.04, PcSaftRecord::new(1.5255, 3.23, 188.9, None, None, Some(0.035176), Some(2899.5), Some(na), Some(nb), Some(nc), None, None, None));
        let hexane = zoo::pcsaft_params(&[(&["hexane"], "gross2001")]).records().0[0].clone();
        let nm: &'static str = Box::leak(format!("assoc({na},{nb},{nc})").into_boxed_str());
        // reference temperature chosen so that eps_AB/kT <= 9.7 on the lattice, as for the shipped water record (conditioning of the
        // closed form degrades exponentially beyond that)
        sets.push((nm, Arc::new(PcSaftParameters::new_pure(rec(na, nb, nc)).unwrap()), 750.0));
        let nm2: &'static str = Box::leak(format!("assoc({na},{nb},{nc})+hexane").into_boxed_str());
        sets.push((nm2, Arc::new(PcSaftParameters::new_binary(vec![rec(na, nb, nc), hexane], None).unwrap()), 750.0));
    }
    for (nm, p, tref) in &sets {
        let n = p.records().0.len();
        for (vn, ver) in [("wb", FMTVersion::WhiteBear), ("kr", FMTVersion::KierlikRosinberg), ("aswb", FMTVersion::AntiSymWhiteBear)] {
            v.push(pair(
                &format!("func-vs-eos|pcsaft:{nm}:{vn}"),
                Arc::new(PcSaft::new(p.clone())),
                Arc::new(PcSaftFunctional::new_full(p.clone(), ver)),
                n,
                *tref,
                // unequal site counts: the two closed forms order their cancellations differently, third temperature derivatives
                // agree to 1e-9 only (observed on the pinned tree); a wrong site count changes A by percent
                if nm.starts_with("assoc(") { 1e-8 } else { 1e-10 },
                1e-10,
                vn == "wb" && (*nm == "propane" || *nm == "methanol+water+ethanol" || *nm == "assoc(2,1,0)" || *nm == "assoc(1,2,0)+hexane") || (vn == "kr" && *nm == "acetone+co2"),
            ));
        }
    }
    for names in [vec!["propane"], vec!["ethanol", "propane"], vec!["1-propanol", "ethanol"], vec!["methyl propanoate", "ethanol"]] {
        let nm = names.join("+");
        v.push(pair(&format!("func-vs-eos|gcpcsaft:{nm}"), Arc::new(zoo::gc_eos(&names)), Arc::new(zoo::gc_func(&names)), names.len(), 500.0, 1e-10, 1e-10, names.len() == 2 && names[0] == "ethanol"));
    }
    // gc-PC-SAFT with binary segment records (k_ij between groups of different molecules): rehner2023
    for names in [vec!["hexane", "toluene"], vec!["1-butanol", "benzene"], vec!["propane", "ethanol"], vec!["ethanol", "hexane", "benzene"]] {
        let nm = names.join("+");
        let (sub, seg, bin) = (zoo::pfile("pcsaft/gc_substances.json"), zoo::pfile("pcsaft/rehner2023_hetero.json"), zoo::pfile("pcsaft/rehner2023_hetero_binary.json"));
        let e = feos::gc_pcsaft::GcPcSaftEosParameters::from_json_segments(&names, sub.clone(), seg.clone(), Some(bin.clone()), IdentifierOption::Name);
        let f = feos::gc_pcsaft::GcPcSaftFunctionalParameters::from_json_segments(&names, sub, seg, Some(bin), IdentifierOption::Name);
        if let (Ok(e), Ok(f)) = (e, f) {
            v.push(pair(&format!("func-vs-eos|gcpcsaft:rehner2023+kij:{nm}"), Arc::new(GcPcSaft::new(Arc::new(e))), Arc::new(GcPcSaftFunctional::new(Arc::new(f))), names.len(), 500.0, 1e-10, 1e-10, names.len() == 2 && names[0] == "hexane"));
        }
    }
    {
        let p = Arc::new(PetsParameters::new_binary(zoo::pets_records(), Some(0.05.into())).unwrap());
        v.push(pair("func-vs-eos|pets:2k", Arc::new(Pets::new(p.clone())), Arc::new(PetsFunctional::new(p)), 2, 130.0, 1e-10, 1e-10, true));
        let p = zoo::vrq(&["hydrogen", "neon"], "aasen2019", Some("aasen2020_binary"));
        v.push(pair("func-vs-eos|saftvrqmie:h2+ne", Arc::new(SaftVRQMie::new(p.clone())), Arc::new(SaftVRQMieFunctional::new(p)), 2, 33.0, 1e-10, 1e-10, true));
        let p = zoo::vrq(&["hydrogen"], "aasen2019_fh2", None);
        v.push(pair("func-vs-eos|saftvrqmie:h2:fh2", Arc::new(SaftVRQMie::new(p.clone())), Arc::new(SaftVRQMieFunctional::new(p)), 1, 33.0, 1e-10, 1e-10, false));
    }
    // ---- generic containers vs bare model
    {
        let p = zoo::pcsaft_params(&[(&["methanol", "water", "ethanol"], "gross2002")]);
        v.push(pair("wrapper|ResidualModel:pcsaft", Arc::new(PcSaft::new(p.clone())), Arc::new(ResidualModel::PcSaft(PcSaft::new(p.clone()))), 3, 512.0, 1e-13, 0.0, true));
        let eos = Arc::new(EquationOfState::new(Arc::new(IdealGasModel::NoModel(3)), Arc::new(PcSaft::new(p.clone()))));
        v.push(pair("wrapper|EquationOfState:pcsaft", Arc::new(PcSaft::new(p.clone())), eos, 3, 512.0, 1e-13, 0.0, true));
        v.push(pair("wrapper|ResidualModel:pcsaftfunc", Arc::new(PcSaftFunctional::new(p.clone())), Arc::new(ResidualModel::PcSaftFunctional(PcSaftFunctional::new(p))), 3, 512.0, 1e-13, 0.0, false));
        let pr = zoo::pr_params(2, 0.05);
        v.push(pair("wrapper|ResidualModel:pr", Arc::new(PengRobinson::new(pr.clone())), Arc::new(ResidualModel::PengRobinson(PengRobinson::new(pr))), 2, 370.0, 1e-13, 0.0, true));
        let q = zoo::vrmie(&["ethane", "methanol"]);
        v.push(pair("wrapper|ResidualModel:saftvrmie", Arc::new(SaftVRMie::new(q.clone())), Arc::new(ResidualModel::SaftVRMie(SaftVRMie::new(q))), 2, 305.0, 1e-13, 0.0, false));
        // both members share one parameter object: two separately assembled gc parameter sets differ in
        // summation order (hash-map iteration inside the parameter construction) by 1e-13
        let names = ["ethanol", "propane"];
        let gp = Arc::new(feos::gc_pcsaft::GcPcSaftEosParameters::from_json_segments(&names, pfile("pcsaft/gc_substances.json"), pfile("pcsaft/sauer2014_hetero.json"), None, IdentifierOption::Name).unwrap());
        v.push(pair("wrapper|ResidualModel:gcpcsaft", Arc::new(GcPcSaft::new(gp.clone())), Arc::new(ResidualModel::GcPcSaft(GcPcSaft::new(gp))), 2, 514.0, 1e-13, 0.0, false));
        let e = zoo::epc(&["water", "sodium ion", "chloride ion"]);
        v.push(pair("wrapper|ResidualModel:epcsaft", Arc::new(ElectrolytePcSaft::new(e.clone())), Arc::new(ResidualModel::ElectrolytePcSaft(ElectrolytePcSaft::new(e))), 3, 300.0, 1e-13, 0.0, false));
    }
    // ---- ePC-SAFT without ions vs PC-SAFT
    for (nm, p, tref) in [
        ("methanol+water+ethanol", zoo::pcsaft_params(&[(&["methanol", "water", "ethanol"], "gross2002")]), 512.0),
        ("propane+hexane", zoo::pcsaft_params(&[(&["propane", "hexane"], "gross2001")]), 370.0),
    ] {
        let (recs, _) = p.records();
        let erecs: Vec<PureRecord<ElectrolytePcSaftRecord>> = recs.iter().map(transcode).collect();
        let ep = Arc::new(ElectrolytePcSaftParameters::from_records(erecs, None).unwrap());
        v.push(pair(&format!("epcsaft-vs-pcsaft|{nm}"), Arc::new(PcSaft::new(p.clone())), Arc::new(ElectrolytePcSaft::new(ep)), recs.len(), tref, 1e-10, 1e-12, true));
    }
    // ---- SAFT-VRQ Mie with FH order 0 vs SAFT-VR Mie (monomers); different quadrature of the HS diameter
    for (m, sig, eps, lr, la, mw, tref) in [(1.0, 3.7412, 153.36, 12.65, 6.0, 16.0, 190.0), (1.0, 3.3, 120.0, 24.0, 6.0, 20.0, 150.0)] {
        let q = Arc::new(SaftVRQMieParameters::new_pure(PureRecord::new(Identifier::default(), mw, SaftVRQMieRecord::new(m, sig, eps, lr, la, 0, None, None, None).unwrap())).unwrap());
        let r = Arc::new(SaftVRMieParameters::new_pure(PureRecord::new(Identifier::default(), mw, SaftVRMieRecord::new_simple(m, sig, eps, lr, la))).unwrap());
        v.push(pair(&format!("vrq-fh0-vs-vrmie|lr={lr}"), Arc::new(SaftVRMie::new(r)), Arc::new(SaftVRQMie::new(q)), 1, tref, 1e-3, 1e-8, true));
    }
    // ---- homosegmented from_segments vs the molecule built from the combined record
    {
        let subs: Vec<ChemicalRecord> = serde_json::from_reader(std::fs::File::open(pfile("pcsaft/gc_substances.json")).unwrap()).unwrap();
        let segs: Vec<SegmentRecord<PcSaftRecord>> = serde_json::from_reader(std::fs::File::open(pfile("pcsaft/sauer2014_homo.json")).unwrap()).unwrap();
        for name in ["hexane", "2-methylpentane", "1-butanol", "ethyl propanoate"] {
            let Some(c) = subs.iter().find(|c| c.identifier.name.as_deref() == Some(name)) else { continue };
            let Ok(p) = PcSaftParameters::from_segments(vec![c.clone()], segs.clone(), None) else { continue };
            // combined record by the documented combining rules (reference implementation)
            let mut counts: std::collections::BTreeMap<String, f64> = Default::default();
            for s in &c.segments {
                *counts.entry(s.clone()).or_insert(0.0) += 1.0;
            }
            let (mut m, mut s3, mut e, mut mw) = (0.0, 0.0, 0.0, 0.0);
            let (mut mu, mut kap, mut eab, mut na, mut nb) = (None::<f64>, None::<f64>, None::<f64>, 0.0, 0.0);
            for (sname, cnt) in &counts {
                let sr = segs.iter().find(|s| &s.identifier == sname).unwrap();
                let r = &sr.model_record;
                m += r.m * cnt;
                s3 += r.m * r.sigma.powi(3) * cnt;
                e += r.m * r.epsilon_k * cnt;
                mw += sr.molarweight * cnt;
                if let Some(x) = r.mu {
                    mu = Some(mu.unwrap_or(0.0) + x * cnt);
                }
                if let Some(a) = &r.association_record {
                    if let (Some(k), Some(ea)) = (a.parameters.kappa_ab, a.parameters.epsilon_k_ab) {
                        kap = Some(k);
                        eab = Some(ea);
                    }
                    na += a.na * cnt;
                    nb += a.nb * cnt;
                }
            }
            let rec = PcSaftRecord::new(m, (s3 / m).cbrt(), e / m, mu, None, kap, eab, Some(na), Some(nb), None, None, None, None);
            let direct = Arc::new(PcSaftParameters::new_pure(PureRecord::new(Identifier::default(), mw, rec)).unwrap());
            v.push(pair(&format!("segments-vs-record|{name}"), Arc::new(PcSaft::new(Arc::new(p))), Arc::new(PcSaft::new(direct)), 1, 500.0, 1e-10, 1e-12, name == "1-butanol" || name == "hexane"));
        }
    }
    v.extend(record_sweep());
    v
}

/// Functional vs equation of state for EVERY pure record of the shipped PC-SAFT collections and for a synthetic feature lattice
/// (chain length below / at / above the m = 2 cap of the polar terms x dipole x quadrupole x association x FMT version): the pure
/// functional has its own copies of the dispersion, polar and association terms, which no hand-picked set of substances covers
fn record_sweep() -> Vec<Pair> {
    let mut v = vec![];
    for file in ["gross2001", "gross2002", "gross2005_fit", "gross2005_literature", "gross2006", "loetgeringlin2018", "eller2022", "rehner2020", "esper2023"] {
        let Ok(f) = std::fs::File::open(pfile(&format!("pcsaft/{file}.json"))) else { continue };
        let Ok(recs) = serde_json::from_reader::<_, Vec<PureRecord<PcSaftRecord>>>(std::io::BufReader::new(f)) else { continue };
        for (k, r) in recs.into_iter().enumerate() {
            let name = r.identifier.name.clone().unwrap_or_else(|| format!("#{k}"));
            // lowest lattice temperature 0.7 tref; for association schemes with unequal site counts the two closed forms (equation of
            // state / functional) lose digits exponentially in eps_AB/kT (see the synthetic schemes above): keep eps_AB/kT <= 9.7
            let mut tref = 1.2 * r.model_record.epsilon_k * r.model_record.m.sqrt();
            let mut unequal = false;
            if let Some(a) = &r.model_record.association_record {
                if a.na != a.nb {
                    unequal = true;
                    if let Some(e) = a.parameters.epsilon_k_ab {
                        tref = tref.max(e / 9.7 / 0.7);
                    }
                }
            }
            let Ok(p) = PcSaftParameters::new_pure(r) else { continue };
            let p = Arc::new(p);
            for (vn, ver) in [("wb", FMTVersion::WhiteBear), ("kr", FMTVersion::KierlikRosinberg)] {
                if vn == "kr" && k % 7 != 0 {
                    continue;
                }
                let mut q = pair(&format!("func-vs-eos|record:{file}:{name}:{vn}"), Arc::new(PcSaft::new(p.clone())), Arc::new(PcSaftFunctional::new_full(p.clone(), ver)), 1, tref, if unequal { 1e-8 } else { 1e-10 }, 1e-10, true);
                q.small = true;
                v.push(q);
            }
        }
    }
    for m in [1.0, 1.6, 2.0, 2.6, 4.5] {
        for mu in [None, Some(2.7)] {
            for qq in [None, Some(4.4)] {
                for assoc in [false, true] {
                    let (kap, eab, na, nb) = if assoc { (Some(0.035), Some(2500.0), Some(1.0), Some(1.0)) } else { (None, None, None, None) };
                    let rec = PureRecord::new(Identifier::new(None, Some("syn"), None, None, None, None), 50.0, PcSaftRecord::new(m, 3.4, 230.0, mu, qq, kap, eab, na, nb, None, None, None, None));
                    let Ok(p) = PcSaftParameters::new_pure(rec) else { continue };
                    let p = Arc::new(p);
                    for (vn, ver) in [("wb", FMTVersion::WhiteBear), ("kr", FMTVersion::KierlikRosinberg), ("aswb", FMTVersion::AntiSymWhiteBear)] {
                        let mut q = pair(&format!("func-vs-eos|synthetic:m={m}:mu={}:q={}:assoc={assoc}:{vn}", mu.unwrap_or(0.0), qq.unwrap_or(0.0)), Arc::new(PcSaft::new(p.clone())), Arc::new(PcSaftFunctional::new_full(p.clone(), ver)), 1, 400.0, 1e-10, 1e-10, true);
                        q.small = true;
                        v.push(q);
                    }
                }
            }
        }
    }
    v
}

struct Case<'a> {
    pair: &'a Pair,
    x: Array1<f64>,
    tf: f64,
    eta: f64,
}

fn case(c: &Case, rec: &mut Rec) {
    let t = c.pair.tref * c.tf;
    let v = 1.0 / ((c.pair.rho_max)(&c.x) * c.eta);
    let (a, b) = (c.pair.eval)(t, v, &c.x);
    if !a[0].1.is_finite() && !b[0].1.is_finite() {
        rec.skip("A_res not finite in both implementations");
        return;
    }
    for ((name, va, ideal), (_, vb, _)) in a.iter().zip(b.iter()) {
        let err = (va - vb).abs();
        let lim = c.pair.band * va.abs().max(vb.abs()) + c.pair.floor * ideal;
        rec.check("agree", name, err / lim.max(1e-300), va.abs() > 0.0, || format!("{name}: {va:e} vs {vb:e} (limit {lim:e})"));
    }
    rec.sample(json!({"pair": c.pair.id, "x": xs(&c.x), "T": t, "V": v, "A": [a[0].1, b[0].1]}));
}

/// closed-form association (1 A-site x 1 B-site, or one C-site) vs the iterative cross-association solver
fn assoc_case(c: &(String, Arc<PcSaftParameters>, f64, f64), rec: &mut Rec) {
    let (_, p, tf, eta) = c;
    let eos = Arc::new(PcSaft::new(p.clone()));
    let x = arr1(&[1.0]);
    let rmax = eos.max_density(Some(&Moles::from_reduced(x.clone()))).unwrap().to_reduced();
    let t = if c.0.starts_with("assoc(") { 750.0 } else { 500.0 } * tf;
    let s = State::new_nvt(&eos, Temperature::from_reduced(t), Volume::from_reduced(1.0 / (rmax * eta)), &Moles::from_reduced(x)).unwrap();
    let ana = Association::new(p, &p.association, 50, 1e-10);
    let itr = Association::new_cross_association(p, &p.association, 50, 1e-10);
    macro_rules! cmp {
        ($sh:expr, $name:expr, $($part:ident),+) => {{
            let sh = $sh;
            let d = p.hs_diameter(sh.temperature);
            let a = ana.helmholtz_energy(&sh, &d) * sh.temperature;
            let b = itr.helmholtz_energy(&sh, &d) * sh.temperature;
            $(
                let (va, vb) = (a.$part, b.$part);
                // the iterative solver stops at 1e-10 in the site fractions
                let lim = 1e-7 * va.abs().max(vb.abs()) + 1e-300;
                rec.check("assoc_analytic_vs_iterative", &format!("{}.{}", $name, stringify!($part)), (va - vb).abs() / lim, va != 0.0, || format!("{} {}: closed form {va:e} vs iterative {vb:e}", $name, stringify!($part)));
            )+
        }};
    }
    cmp!(s.derive1(Derivative::DV), "dV", re, eps);
    cmp!(s.derive2(Derivative::DT), "dT2", v1, v2);
    cmp!(s.derive2_mixed(Derivative::DV, Derivative::DN(0)), "dVdN", eps1, eps2, eps1eps2);
    cmp!(s.derive3(Derivative::DV), "dV3", v3);
    cmp!(s.derive3(Derivative::DT), "dT3", v3);
}

/// a single self-complementary C site obeys the same mass-action law as one A and one B site of equal strength
/// (X = 1/(1 + rho X Delta)), so its association energy is exactly half of the 1A/1B energy. The C-site branch and the
/// A/B branch are separate code in the generic association term and in SAFT-VR Mie.
fn csite_case(c: &(String, f64, f64), rec: &mut Rec) {
    let (model, tf, eta) = c;
    let x = arr1(&[1.0]);
    let build = |na: Option<f64>, nb: Option<f64>, nc: Option<f64>, assoc: bool| -> Arc<ResidualModel> {
        match model.as_str() {
            "pcsaft" => {
                let r = PcSaftRecord::new(1.5255, 3.23, 188.9, None, None, if assoc { Some(0.035176) } else { None }, if assoc { Some(2899.5) } else { None }, na, nb, nc, None, None, None);
                Arc::new(ResidualModel::PcSaft(PcSaft::new(Arc::new(PcSaftParameters::new_pure(PureRecord::new(Identifier::default(), 32.04, r)).unwrap()))))
            }
            _ => {
                let r = if assoc { SaftVRMieRecord::new(1.5283, 3.3063, 167.72, 8.6556, 6.0, Some(0.41314), Some(2904.7), na, nb, nc, None, None, None) } else { SaftVRMieRecord::new_simple(1.5283, 3.3063, 167.72, 8.6556, 6.0) };
                Arc::new(ResidualModel::SaftVRMie(SaftVRMie::new(Arc::new(SaftVRMieParameters::new_pure(PureRecord::new(Identifier::default(), 32.026, r)).unwrap()))))
            }
        }
    };
    let none = build(None, None, None, false);
    let ab = build(Some(1.0), Some(1.0), None, true);
    let cc = build(None, None, Some(1.0), true);
    let rmax = none.max_density(Some(&Moles::from_reduced(x.clone()))).unwrap().to_reduced();
    let (t, v) = (750.0 * tf, 1.0 / (rmax * eta));
    let (p0, pab, pc) = (props(&none, t, v, &x), props(&ab, t, v, &x), props(&cc, t, v, &x));
    for ((a0, aab), ac) in p0.iter().zip(pab.iter()).zip(pc.iter()) {
        let (d_ab, d_c) = (aab.1 - a0.1, ac.1 - a0.1);
        let lim = 1e-9 * d_ab.abs().max(d_c.abs()) + 1e-12 * a0.1.abs().max(aab.2) + 1e-300;
        rec.check("csite_is_half_of_ab", &a0.0, (d_c - 0.5 * d_ab).abs() / lim, d_ab != 0.0, || format!("{}: association part with one C site = {d_c:e}, half of the 1A/1B association part = {:e}", a0.0, 0.5 * d_ab));
    }
}

/// Peng-Robinson pressure vs the textbook closed form written here in SI units
fn pr_case(c: &(usize, f64, f64, f64), rec: &mut Rec) {
    let (n, tf, eta, kij) = *c;
    let p = zoo::pr_params(n, kij);
    let eos = Arc::new(PengRobinson::new(p.clone()));
    let x: Array1<f64> = match n {
        1 => arr1(&[1.0]),
        2 => arr1(&[0.3, 0.7]),
        _ => arr1(&[0.3, 0.5, 0.2]),
    };
    let rmax = eos.max_density(Some(&Moles::from_reduced(x.clone()))).unwrap();
    let t = 370.0 * tf * KELVIN;
    let rho = rmax * eta;
    let s = State::new_nvt(&eos, t, MOL / rho, &(&x * MOL)).unwrap();
    // textbook: p = RT/(v-b) - a alpha/(v^2 + 2bv - b^2), SI
    let r = 8.31446261815324f64;
    let (recs, k) = p.records();
    let tk = 370.0 * tf;
    let mut am = 0.0;
    let mut bm = 0.0;
    // (tc, pc, omega) of each record, read through serde (the fields are private)
    let tpo: Vec<(f64, f64, f64)> = recs
        .iter()
        .map(|q| {
            let j = serde_json::to_value(&q.model_record).unwrap();
            (j["tc"].as_f64().unwrap(), j["pc"].as_f64().unwrap(), j["acentric_factor"].as_f64().unwrap())
        })
        .collect();
    let ai: Vec<f64> = tpo
        .iter()
        .map(|&(tc, pc, om)| {
            let kappa = 0.37464 + 1.54226 * om - 0.26992 * om.powi(2);
            0.45724 * r * r * tc * tc / pc * (1.0 + kappa * (1.0 - (tk / tc).sqrt())).powi(2)
        })
        .collect();
    for i in 0..n {
        bm += x[i] * 0.07780 * r * tpo[i].0 / tpo[i].1;
        for j in 0..n {
            am += x[i] * x[j] * (ai[i] * ai[j]).sqrt() * (1.0 - k.map(|k| k[[i, j]]).unwrap_or(0.0));
        }
    }
    let vm = 1.0 / rho.convert_into(MOL / METER.powi::<typenum::P3>());
    let p_ref = r * tk / (vm - bm) - am / (vm * vm + 2.0 * bm * vm - bm * bm);
    let p_feos = s.pressure(Contributions::Total).convert_into(PASCAL);
    // constants of the textbook form (R, 0.45724, 0.07780) are the same; remaining difference is k_B*N_A rounding
    let lim = 1e-8 * (r * tk / (vm - bm)).abs();
    rec.check("pr_textbook", "p", (p_ref - p_feos).abs() / lim, true, || format!("feos p = {p_feos:e} Pa, closed form {p_ref:e} Pa"));
}

pub fn run(ctx: &mut Ctx) {
    let tier = ctx.tier;
    // both tiers run every implementation pair (the quick tier on the small state lattice)
    let ps: Vec<Pair> = pairs();
    let mut cases = vec![];
    for p in &ps {
        let xsets: Vec<Array1<f64>> = match p.n {
            1 => vec![arr1(&[1.0])],
            2 => tier.pick(vec![arr1(&[0.3, 0.7])], vec![arr1(&[0.02, 0.98]), arr1(&[0.3, 0.7]), arr1(&[0.98, 0.02])]),
            _ => tier.pick(vec![arr1(&[0.3, 0.5, 0.2])], vec![arr1(&[0.3, 0.5, 0.2]), arr1(&[0.9, 0.05, 0.05])]),
        };
        // electrolyte wrapper pair needs a neutral composition
        let xsets = if p.id.contains("epcsaft") && p.n == 3 && p.id.starts_with("wrapper/") { vec![arr1(&[0.96, 0.02, 0.02])] } else { xsets };
        for x in xsets {
            let (tfs, etas) = if p.small { (vec![0.7, 1.5], vec![1e-3, 0.3, 0.7]) } else { (t_factors(tier), eta_factors(tier)) };
            for &tf in &tfs {
                for &eta in &etas {
                    cases.push(Case { pair: p, x: x.clone(), tf, eta });
                }
            }
        }
    }
    ctx.rule = format!("every implementation pair ({}; incl. synthetic association schemes with unequal site counts and C sites, gc-PC-SAFT with binary segment records) x compositions x T/Tref {:?} x eta {:?} x {{A, p, s, mu_i, all second-order keys, d2p_dv2, d2s_dt2}}; oracle: pairwise agreement within the pair's band (1e-13 wrappers, 1e-10 exact pairs + 1e-10 ideal-gas floor for functionals, 1e-3 for SAFT-VRQ Mie FH0 vs SAFT-VR Mie (different quadrature of the hard-sphere diameter, observed 1e-4)); closed-form vs iterative association on every dual part; one C site = half of one A + one B site (PC-SAFT and SAFT-VR Mie); PR vs SI closed form", ps.len(), t_factors(tier), eta_factors(tier));
    ctx.extra("pairs", json!(ps.iter().map(|p| p.id.clone()).collect::<Vec<_>>()));
    ctx.run(&cases, |c| format!("{}|x={}|T={}|eta={}", c.pair.id, xs(&c.x), c.tf, c.eta), case);
    // association
    let mut ac = vec![];
    let mut aset: Vec<(String, Arc<PcSaftParameters>)> = vec![("water(2B)".into(), zoo::pcsaft_params(&[(&["water"], "gross2002")])), ("methanol(2B)".into(), zoo::pcsaft_params(&[(&["methanol"], "gross2002")])), ("acetic acid".into(), zoo::pcsaft_params(&[(&["acetic acid"], "gross2002")]))];
    for (na, nb) in [(2.0, 1.0), (1.0, 2.0), (3.0, 1.0), (2.0, 2.0)] {
        let r = PureRecord::new(Identifier::new(None, Some("assoc"), None, None, None, None), 32.04, PcSaftRecord::new(1.5255, 3.23, 188.9, None, None, Some(0.035176), Some(2899.5), Some(na), Some(nb), None, None, None, None));
        aset.push((format!("assoc({na},{nb})"), Arc::new(PcSaftParameters::new_pure(r).unwrap())));
    }
    for (nm, p) in aset {
        for &tf in &t_factors(tier) {
            for &eta in &eta_factors(tier) {
                if eta >= 1e-3 {
                    ac.push((nm.to_string(), p.clone(), tf, eta));
                }
            }
        }
    }
    ctx.run(&ac, |c| format!("assoc|{}|T={}|eta={}", c.0, c.2, c.3), assoc_case);
    let mut cs = vec![];
    for model in ["pcsaft", "saftvrmie"] {
        for &tf in &t_factors(tier) {
            for &eta in &eta_factors(tier) {
                if eta >= 1e-3 {
                    cs.push((model.to_string(), tf, eta));
                }
            }
        }
    }
    ctx.run(&cs, |c| format!("csite|{}|T={}|eta={}", c.0, c.1, c.2), csite_case);
    let mut pc = vec![];
    for n in 1..=3usize {
        for &tf in &t_factors(tier) {
            for &eta in &eta_factors(tier) {
                for kij in [0.0, 0.05] {
                    if n > 1 || kij == 0.0 {
                        pc.push((n, tf, eta, kij));
                    }
                }
            }
        }
    }
    ctx.run(&pc, |c| format!("pr-textbook|n={}|T={}|eta={}|kij={}", c.0, c.1, c.2, c.3), pr_case);
    ctx.assume("continuous coordinates covered on the lattice only; pairs are the ones named in the property");
}
