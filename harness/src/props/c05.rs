//! C05 — mixture equilibrium results satisfy isofugacity, balances and the specification
use super::mix::*;
use crate::engine::{Ctx, Rec, Tier};
use crate::zoo;
use feos_core::{Contributions, PhaseDiagram, PhaseEquilibrium, ReferenceSystem, State};
use ndarray::{arr1, Array1};
use quantity::*;
use serde_json::json;

/// conditions every returned two-phase result has to satisfy
pub fn conditions(rec: &mut Rec, sub: &str, vle: &Vle) {
    let (v, l) = (vle.vapor(), vle.liquid());
    rec.require("common_T", sub, v.temperature == l.temperature, || format!("T_v = {}, T_l = {}", v.temperature, l.temperature));
    // the liquid is stiff: a density error at solver tolerance (1e-9 relative) changes p_l by rho_l dp/drho_l * 1e-9,
    // which at sub-pascal dew pressures of heavy mixtures exceeds any purely relative band
    let (pv, pl) = (v.pressure(Contributions::Total).to_reduced(), l.pressure(Contributions::Total).to_reduced());
    let stiff = l.density.to_reduced() * l.dp_drho(Contributions::Total).to_reduced();
    // absolute floor 1e-25 K/A^3 (1e-18 Pa): below that both pressures are zero to any physical precision
    let lim = 1e-6 * pv.abs().max(pl.abs()) + 1e-8 * stiff.abs() + 1e-25;
    rec.check("common_p", sub, (pv - pl).abs() / lim, true, || format!("p_v = {}, p_l = {} (limit {lim:e} reduced)", v.pressure(Contributions::Total), l.pressure(Contributions::Total)));

    let iso = isofugacity(vle);
    // ln phi_i contains -ln Z = -ln(p / rho R T): a relative pressure mismatch of the (stiff) liquid, which the
    // common-pressure oracle bounds separately, propagates one-to-one into the fugacities
    let iso_lim = 1e-5 + 2.0 * (pv - pl).abs() / pv.abs().max(pl.abs()).max(1e-300);
    rec.check("isofugacity", sub, iso / iso_lim, true, || format!("x_i phi_i differ by {iso:e} (relative) between the phases (limit {iso_lim:e})"));
    let d = distance(vle);
    rec.require("distinct_phases", sub, d > 1e-5, || format!("phases are copies of each other (distance {d:e})"));
}

struct Case {
    pair: Pair,
    tr: f64,
    x: f64,
}

fn case(c: &Case, rec: &mut Rec) {
    let eos = &c.pair.eos;
    let t = Temperature::from_reduced(c.pair.tc_low() * c.tr);
    let xs = xvec(c.x);
    let b = PhaseEquilibrium::bubble_point(eos, t, &xs, None, None, Default::default());
    let d = PhaseEquilibrium::dew_point(eos, t, &xs, None, None, Default::default());
    for (name, r, spec_liquid) in [("bubble", &b, true), ("dew", &d, false)] {
        match r {
            Ok(v) => {
                rec.require("found", name, true, String::new);
                conditions(rec, name, v);
                let spec_phase = if spec_liquid { v.liquid() } else { v.vapor() };
                rec.require("spec_exact", &format!("{name}|x"), (spec_phase.molefracs[0] - c.x).abs() <= 1e-15 && (spec_phase.molefracs[1] - (1.0 - c.x)).abs() <= 1e-15, || format!("specified composition {} returned as {}", xs, spec_phase.molefracs));
                rec.require("spec_exact", &format!("{name}|T"), v.vapor().temperature == t && v.liquid().temperature == t, || format!("specified T = {t}, returned {}", v.vapor().temperature));
            }
            Err(e) => {
                if c.pair.in_domain {
                    rec.require("found", name, false, || format!("{} point not found for {} at T = {:.4} Tc_low, x = {}: {e}", name, c.pair.id, c.tr, c.x));
                } else {
                    rec.skip("bubble/dew point not found outside the success domain (conditional)");
                }
            }
        }
    }
    let (Ok(b), Ok(d)) = (&b, &d) else { return };
    // solver options: the pair is (inner T/p loop, outer loop). The outer options decide when the calculation is converged:
    // with default outer options the answer is the default answer whatever the inner loop is told (or the call fails);
    // with a loose outer tolerance the answer is within that tolerance of it
    {
        use feos_core::SolverOptions;
        let so = |tol: Option<f64>, it: Option<usize>| SolverOptions { tol, max_iter: it, ..Default::default() };
        let dev = |a: &Vle, r: &Vle| -> f64 {
            let dp = ((a.vapor().pressure(Contributions::Total) - r.vapor().pressure(Contributions::Total)) / r.vapor().pressure(Contributions::Total)).into_value().abs();
            let dx = (&a.vapor().molefracs - &r.vapor().molefracs).iter().chain((&a.liquid().molefracs - &r.liquid().molefracs).iter()).fold(0.0f64, |m, v| m.max(v.abs()));
            dp.max(dx)
        };
        for (oname, opts, band) in [("inner_tol=1e-2", (so(Some(1e-2), None), so(None, None)), 1e-6), ("inner_tol=1e-4", (so(Some(1e-4), None), so(None, None)), 1e-6), ("inner_iter=1", (so(None, Some(1)), so(None, None)), 1e-6), ("outer_tol=1e-5", (so(None, None), so(Some(1e-5), None)), 1e-3)] {
            for (name, reference, bubble) in [("bubble", b, true), ("dew", d, false)] {
                let r = if bubble { PhaseEquilibrium::bubble_point(eos, t, &xs, None, None, opts) } else { PhaseEquilibrium::dew_point(eos, t, &xs, None, None, opts) };
                match r {
                    Ok(g) => {
                        let e = dev(&g, reference);
                        rec.check("options_respected", &format!("{name}|{oname}"), e / band, true, || format!("{name} point with options {oname} deviates from the default-option result by {e:e} (allowed {band:e})"));
                    }
                    Err(_) => rec.skip("bubble/dew point with non-default options fails (conditional)"),
                }
            }
        }
    }
    let pb = b.vapor().pressure(Contributions::Total);
    let pd = d.vapor().pressure(Contributions::Total);
    rec.require("p_bub>=p_dew", "", pb >= pd * (1.0 - 1e-9), || format!("bubble pressure {pb} below dew pressure {pd}"));
    // pressure specification: bubble / dew temperature at the pressures just found
    for (name, p, spec_liquid) in [("bubble_p", pb, true), ("dew_p", pd, false)] {
        let r = if spec_liquid { PhaseEquilibrium::bubble_point(eos, p, &xs, Some(t * 1.02), None, Default::default()) } else { PhaseEquilibrium::dew_point(eos, p, &xs, Some(t * 1.02), None, Default::default()) };
        match r {
            Ok(v) => {
                conditions(rec, name, &v);
                // a dew/bubble temperature at given pressure need not be unique (retrograde behaviour), so the
                // round trip T -> p -> T is counted, not required
                let e = ((v.vapor().temperature - t) / t).into_value().abs();
                if e > 1e-7 {
                    rec.count("pressure_specification_returns_other_temperature");
                }
                let spec_phase = if spec_liquid { v.liquid() } else { v.vapor() };
                rec.require("spec_exact", &format!("{name}|x"), (spec_phase.molefracs[0] - c.x).abs() <= 1e-15, || "specified composition changed".into());
                let ep = ((spec_phase.pressure(Contributions::Total) - p) / p).into_value().abs();
                rec.check("spec_exact", &format!("{name}|p"), ep / 1e-8, true, || format!("{name}: pressure of the specified phase off by {ep:e}"));
            }
            Err(_) => rec.skip("bubble/dew at given pressure fails (conditional)"),
        }
    }
    // flashes strictly inside the envelope
    if ((pb - pd) / pb).into_value() < 1e-3 {
        rec.skip("envelope too narrow for interior flashes");
        return;
    }
    let feed = &xs * MOL;
    for w in WS {
        let p = pd + (pb - pd) * w;
        let name = format!("flash|w={w}");
        match PhaseEquilibrium::tp_flash(eos, t, p, &feed, None, Default::default(), None) {
            Ok(f) => {
                rec.require("found", &name, true, String::new);
                conditions(rec, &name, &f);
                let bal = ((f.vapor().moles.clone() + f.liquid().moles.clone() - feed.clone()) / feed.sum()).into_value().iter().fold(0.0f64, |a, b| a.max(b.abs()));
                rec.check("material_balance", &name, bal / 1e-12, true, || format!("v + l - feed = {bal:e} (relative)"));
                rec.require("spec_exact", &format!("{name}|T"), f.vapor().temperature == t && f.liquid().temperature == t, || "flash temperature not echoed".into());
                let ep = ((f.vapor().pressure(Contributions::Total) - p) / p).into_value().abs().max(((f.liquid().pressure(Contributions::Total) - p) / p).into_value().abs());
                rec.check("spec_exact", &format!("{name}|p"), ep / 1e-7, true, || format!("flash pressure off by {ep:e}"));
                // compositions bracket the feed
                let (y, xl) = (f.vapor().molefracs[0], f.liquid().molefracs[0]);
                rec.require("feed_between_phases", &name, (y - c.x) * (xl - c.x) <= 1e-12, || format!("feed x = {} not between y = {y} and x = {xl}", c.x));
                // warm start from this equilibrium at a neighbouring temperature and pressure: whatever is returned must be an
                // equilibrium at the NEW specification (the path taken through the initial state must not leak into the result)
                for (dt, dp) in [(1.003, 1.0), (0.997, 1.0), (1.0, 1.01), (1.003, 0.99)] {
                    let (t2, p2) = (t * dt, p * dp);
                    let wname = format!("{name}|warm|dT={dt}|dp={dp}");
                    for (via, res) in [("associated", PhaseEquilibrium::tp_flash(eos, t2, p2, &feed, Some(&f), Default::default(), None)), ("state", State::new_npt(eos, t2, p2, &feed, feos_core::DensityInitialization::None).and_then(|s| s.tp_flash(Some(&f), Default::default(), None)))] {
                        match res {
                            Ok(g) => {
                                let wn = format!("{wname}|{via}");
                                conditions(rec, &wn, &g);
                                rec.require("spec_exact", &format!("{wn}|T"), g.vapor().temperature == t2 && g.liquid().temperature == t2, || format!("warm-started flash specified at {t2} returns phases at {} / {}", g.vapor().temperature, g.liquid().temperature));
                                let ep = ((g.vapor().pressure(Contributions::Total) - p2) / p2).into_value().abs().max(((g.liquid().pressure(Contributions::Total) - p2) / p2).into_value().abs());
                                rec.check("spec_exact", &format!("{wn}|p"), ep / 1e-7, true, || format!("warm-started flash pressure off by {ep:e}"));
                                let bal = ((g.vapor().moles.clone() + g.liquid().moles.clone() - feed.clone()) / feed.sum()).into_value().iter().fold(0.0f64, |a, b| a.max(b.abs()));
                                rec.check("material_balance", &wn, bal / 1e-12, true, || format!("v + l - feed = {bal:e} (relative)"));
                            }
                            Err(_) => rec.skip("warm-started flash fails or leaves the envelope (conditional)"),
                        }
                    }
                }
            }
            Err(e) => {
                if c.pair.in_domain {
                    rec.require("found", &name, false, || format!("tp_flash fails strictly inside the envelope ({} at {:.4} Tc_low, x = {}, {w} of the way from dew to bubble pressure): {e}", c.pair.id, c.tr, c.x));
                } else {
                    rec.skip("flash fails outside the success domain (conditional)");
                }
            }
        }
    }
}

/// phase-diagram drivers and other systems: conditions whenever Ok
fn diagram_case(c: &(String, M, f64, usize), rec: &mut Rec) {
    let (_, eos, t, np) = c;
    let tq = Temperature::from_reduced(*t);
    match PhaseDiagram::binary_vle(eos, tq, Some(*np), None, Default::default()) {
        Ok(d) => {
            rec.count_n("binary_vle_states", d.states.len() as u64);
            for (i, s) in d.states.iter().enumerate() {
                // end points are pure-component equilibria (identical compositions, different densities)
                let pure_end = s.vapor().molefracs.iter().any(|x| *x == 0.0 || *x == 1.0);
                if pure_end {
                    rec.check("common_p", &format!("binary_vle|{i}"), rel_dp(s) / 1e-6, true, || "pure end point: pressures differ".into());
                } else if distance(s) > 1e-5 {
                    conditions(rec, &format!("binary_vle|{i}"), s);
                } else {
                    // critical end point of a supercritical diagram
                    rec.count("critical_end_point");
                }
                rec.require("spec_exact", &format!("binary_vle|{i}|T"), s.vapor().temperature == tq, || "diagram state not at the specified temperature".into());
            }
            // liquid composition strictly monotone along the diagram
            let xs: Vec<f64> = d.states.iter().map(|s| s.liquid().molefracs[0]).collect();
            let mono = xs.windows(2).all(|w| w[0] < w[1]) || xs.windows(2).all(|w| w[0] > w[1]);
            rec.require("diagram_monotone", "binary_vle", mono, || format!("liquid compositions not monotone: {xs:?}"));
        }
        Err(_) => rec.skip("binary_vle fails (conditional)"),
    }
    let m = arr1(&[0.4, 0.6]) * MOL;
    for (name, r) in [("bubble_point_line", PhaseDiagram::bubble_point_line(eos, &m, tq * 0.8, *np, None, Default::default())), ("dew_point_line", PhaseDiagram::dew_point_line(eos, &m, tq * 0.8, *np, None, Default::default()))] {
        match r {
            Ok(d) => {
                for (i, s) in d.states.iter().enumerate().take(d.states.len().saturating_sub(1)) {
                    conditions(rec, &format!("{name}|{i}"), s);
                    let spec = if name == "bubble_point_line" { s.liquid() } else { s.vapor() };
                    rec.require("spec_exact", &format!("{name}|{i}|x"), (spec.molefracs[0] - 0.4).abs() < 1e-14, || "line point not at the specified composition".into());
                }
            }
            Err(_) => rec.skip("bubble/dew point line fails (conditional)"),
        }
    }
}

fn other_case(c: &(String, M, Array1<f64>, f64), rec: &mut Rec) {
    let (_, eos, x, t) = c;
    let tq = Temperature::from_reduced(*t);
    let b = PhaseEquilibrium::bubble_point(eos, tq, x, None, None, Default::default());
    let d = PhaseEquilibrium::dew_point(eos, tq, x, None, None, Default::default());
    if let Ok(v) = &b {
        conditions(rec, "bubble", v);
        rec.require("spec_exact", "bubble|x", (&v.liquid().molefracs - x).iter().all(|e| e.abs() < 1e-14), || "bubble composition changed".into());
    } else {
        rec.skip("bubble point fails (conditional)");
    }
    if let Ok(v) = &d {
        conditions(rec, "dew", v);
    } else {
        rec.skip("dew point fails (conditional)");
    }
    if let (Ok(b), Ok(d)) = (&b, &d) {
        let (pb, pd) = (b.vapor().pressure(Contributions::Total), d.vapor().pressure(Contributions::Total));
        rec.require("p_bub>=p_dew", "", pb >= pd * (1.0 - 1e-9), || format!("bubble pressure {pb} below dew pressure {pd}"));
        if ((pb - pd) / pb).into_value() > 1e-3 {
            let feed = x * MOL;
            if let Ok(f) = PhaseEquilibrium::tp_flash(eos, tq, pd + (pb - pd) * 0.5, &feed, None, Default::default(), None) {
                conditions(rec, "flash", &f);
                let bal = ((f.vapor().moles.clone() + f.liquid().moles.clone() - feed.clone()) / feed.sum()).into_value().iter().fold(0.0f64, |a, b| a.max(b.abs()));
                rec.check("material_balance", "flash", bal / 1e-12, true, || format!("balance {bal:e}"));
            } else {
                rec.skip("flash fails (conditional)");
            }
        }
    }
}

/// liquid-liquid equilibrium and heteroazeotrope of a partially miscible system: conditions whenever Ok
fn lle_case(c: &(String, M), rec: &mut Rec) {
    let (_, eos) = c;
    let t = 350.0 * KELVIN;
    let p = 5.0 * BAR;
    let feed = arr1(&[0.5, 0.5]) * MOL;
    match PhaseEquilibrium::tp_flash(eos, t, p, &feed, None, Default::default(), None) {
        Ok(f) => {
            conditions(rec, "lle_flash", &f);
            let bal = ((f.vapor().moles.clone() + f.liquid().moles.clone() - feed.clone()) / feed.sum()).into_value().iter().fold(0.0f64, |a, b| a.max(b.abs()));
            rec.check("material_balance", "lle_flash", bal / 1e-12, true, || format!("balance {bal:e}"));
            let (x1, x2) = (f.vapor().molefracs[0], f.liquid().molefracs[0]);
            // liquid-liquid saturation points through bubble_point / dew_point (pressure specified, the other liquid as guess for the
            // incipient phase), from BOTH sides: the incipient phase is denser than the specified phase on one side and less dense on
            // the other; the specified composition must come back as liquid() of a bubble point and as vapor() of a dew point
            // (at 100 bar, far above the three-phase pressure, so that the liquid-liquid point is the nearby solution; which solution
            // the solver ends on is not part of the property: it is counted, the echo of the specification is required)
            let p_hi = 100.0 * BAR;
            let f_hi = PhaseEquilibrium::tp_flash(eos, t, p_hi, &feed, None, Default::default(), None);
            for (side, spec, other) in f_hi.iter().flat_map(|f| [("light", f.vapor(), f.liquid()), ("dense", f.liquid(), f.vapor())]) {
                for (kind, r) in [
                    ("bubble", PhaseEquilibrium::bubble_point(eos, p_hi, &spec.molefracs, Some(t), Some(&other.molefracs), Default::default())),
                    ("dew", PhaseEquilibrium::dew_point(eos, p_hi, &spec.molefracs, Some(t), Some(&other.molefracs), Default::default())),
                ] {
                    let sub = format!("lle_{kind}|{side}");
                    match r {
                        Ok(b) => {
                            conditions(rec, &sub, &b);
                            let kept = if kind == "bubble" { b.liquid() } else { b.vapor() };
                            let inc = if kind == "bubble" { b.vapor() } else { b.liquid() };
                            let dx = (&kept.molefracs - &spec.molefracs).iter().fold(0.0f64, |a, v| a.max(v.abs()));
                            rec.check("spec_exact", &format!("{sub}|x"), dx / 1e-14, true, || format!("{kind} point: specified composition {:?} came back as {:?} (the other phase has {:?})", spec.molefracs.to_vec(), kept.molefracs.to_vec(), inc.molefracs.to_vec()));
                            let dt = ((kept.temperature - t) / t).into_value().abs();
                            let dxi = (&inc.molefracs - &other.molefracs).iter().fold(0.0f64, |a, v| a.max(v.abs()));
                            if dt < 1e-4 && dxi < 1e-3 {
                                rec.count(&format!("liquid_liquid_point_found|{kind}|{side}"));
                            }
                        }
                        Err(_) => rec.skip("liquid-liquid bubble/dew point fails (conditional)"),
                    }
                }
            }
            match PhaseEquilibrium::heteroazeotrope(eos, t, (x1.min(x2), x1.max(x2)), None, Default::default(), Default::default()) {
                Ok(h) => {
                    // three phases at one T, p with equal fugacities
                    let ps: Vec<f64> = [h.vapor(), h.liquid1(), h.liquid2()].iter().map(|s| s.pressure(Contributions::Total).to_reduced()).collect();
                    let dp = (ps[0] - ps[1]).abs().max((ps[0] - ps[2]).abs()) / ps[0].abs();
                    rec.check("common_p", "heteroazeotrope", dp / 1e-6, true, || format!("three-phase pressures {ps:?}"));
                    let f = |s: &State<_>| &s.molefracs * &s.ln_phi().mapv(f64::exp);
                    let (fv, f1, f2) = (f(h.vapor()), f(h.liquid1()), f(h.liquid2()));
                    let e = (0..2).map(|i| ((fv[i] - f1[i]) / fv[i]).abs().max(((fv[i] - f2[i]) / fv[i]).abs())).fold(0.0, f64::max);
                    rec.check("isofugacity", "heteroazeotrope", e / 1e-5, true, || format!("three-phase fugacities differ by {e:e}"));
                    rec.require("common_T", "heteroazeotrope", h.vapor().temperature == t && h.liquid1().temperature == t && h.liquid2().temperature == t, || "temperatures differ".into());
                    let dd = (h.liquid1().molefracs[0] - h.liquid2().molefracs[0]).abs();
                    rec.require("distinct_phases", "heteroazeotrope", dd > 1e-4, || "liquid phases identical".into());
                    // the same three-phase point from the pressure specification, from exact and from perturbed liquid compositions
                    let ph = h.vapor().pressure(Contributions::Total);
                    let (xa, xb) = (h.liquid1().molefracs[0], h.liquid2().molefracs[0]);
                    for (gn, (ga, gb)) in [("exact", (xa, xb)), ("perturbed", ((xa * 0.8).max(1e-6), 1.0 - (1.0 - xb) * 0.8)), ("flash", (x1.min(x2), x1.max(x2)))] {
                        // (an initial temperature is mandatory for the pressure specification)
                        match PhaseEquilibrium::heteroazeotrope(eos, ph, (ga.min(gb), ga.max(gb)), Some(t * 1.01), Default::default(), Default::default()) {
                            Ok(hp) => {
                                let sub = format!("heteroazeotrope_p|{gn}");
                                let ts: Vec<f64> = [hp.vapor(), hp.liquid1(), hp.liquid2()].iter().map(|s| s.temperature.to_reduced()).collect();
                                rec.require("common_T", &sub, ts[0] == ts[1] && ts[0] == ts[2], || format!("three phases at {ts:?} K"));
                                let ps: Vec<f64> = [hp.vapor(), hp.liquid1(), hp.liquid2()].iter().map(|s| s.pressure(Contributions::Total).to_reduced()).collect();
                                let dp = ps.iter().map(|q| ((q - ph.to_reduced()) / ph.to_reduced()).abs()).fold(0.0, f64::max);
                                rec.check("spec_exact", &format!("{sub}|p"), dp / 1e-6, true, || format!("three-phase pressures {ps:?} for a specified {ph}"));
                                let (fv, f1, f2) = (f(hp.vapor()), f(hp.liquid1()), f(hp.liquid2()));
                                let e = (0..2).map(|i| ((fv[i] - f1[i]) / fv[i]).abs().max(((fv[i] - f2[i]) / fv[i]).abs())).fold(0.0, f64::max);
                                rec.check("isofugacity", &sub, e / 1e-5, true, || format!("three-phase fugacities differ by {e:e}"));
                                rec.check("inverse", &format!("{sub}|T"), ((ts[0] - t.to_reduced()) / t.to_reduced()).abs() / 1e-6, true, || format!("heteroazeotrope at the pressure of the T = {t} point returns T = {} K", ts[0]));
                            }
                            Err(_) => rec.skip("pressure-specified heteroazeotrope fails (conditional)"),
                        }
                    }
                }
                Err(_) => rec.skip("heteroazeotrope fails (conditional)"),
            }
        }
        Err(_) => rec.skip("LLE flash fails (conditional)"),
    }
    match PhaseDiagram::lle(eos, p, &feed, 300.0 * KELVIN, 400.0 * KELVIN, Some(5)) {
        Ok(d) => {
            for (i, s) in d.states.iter().enumerate() {
                conditions(rec, &format!("lle_diagram|{i}"), s);
                // every point is at the specified pressure and at a temperature of the requested grid
                let ep = ((s.vapor().pressure(Contributions::Total) - p) / p).into_value().abs();
                rec.check("spec_exact", &format!("lle_diagram|{i}|p"), ep / 1e-7, true, || format!("lle diagram point off the specified pressure by {ep:e}"));
                let tk = s.vapor().temperature.to_reduced();
                let on_grid = (0..5).any(|k| (tk - (300.0 + 25.0 * k as f64)).abs() < 1e-9);
                rec.require("spec_exact", &format!("lle_diagram|{i}|T"), on_grid && s.liquid().temperature == s.vapor().temperature, || format!("lle diagram point at {tk} K is not on the requested temperature grid 300, 325, .., 400 K"));
            }
        }
        Err(_) => rec.skip("lle diagram fails (conditional)"),
    }
}

pub fn run(ctx: &mut Ctx) {
    let tier = ctx.tier;
    let ps = pairs(tier, 1.8);
    let mut cases = vec![];
    for p in &ps {
        for tr in trs(tier) {
            for x in xs_lattice(tier) {
                cases.push(Case { pair: p.clone(), tr, x });
            }
        }
    }
    ctx.extra("pairs", json!(ps.len()));
    ctx.extra("pairs_in_success_domain", json!(ps.iter().filter(|p| p.in_domain).count()));
    ctx.run(&cases, |c| format!("{}|Tr={}|x={}", c.pair.id, c.tr, c.x), case);
    // diagrams
    let mut dc = vec![];
    for (k, p) in ps.iter().enumerate() {
        if k % tier.pick(8, 3) == 0 {
            for np in tier.pick(vec![7], vec![5, 11, 21]) {
                dc.push((p.id.clone(), p.eos.clone(), p.tc_low() * 0.85, np));
                // supercritical in the lighter component
                dc.push((p.id.clone(), p.eos.clone(), p.tc_low() * 1.05, np));
            }
        }
    }
    ctx.run(&dc, |c| format!("diagram|{}|T={:.2}|n={}", c.0, c.2, c.3), diagram_case);
    // other models, ternaries
    let mut oc: Vec<(String, M, Array1<f64>, f64)> = vec![];
    for e in zoo::zoo(Tier::Thorough) {
        let ok = ["gcpcsaft:ethanol+propane", "gcpcsaft:1-propanol+ethanol(cross)", "saftvrmie:ethane+propane", "pcsaft:propane+butane", "pcsaft:propane+hexane:k", "pcsaft:propane+butane+hexane", "pr:2k", "pr:3k", "pets:2k", "pcsaft:methanol+water(cross)"].contains(&e.id.as_str());
        if !ok {
            continue;
        }
        let tcs = State::critical_point_pure(&e.eos, None, Default::default());
        let Ok(tcs) = tcs else { continue };
        let tlow = tcs.iter().map(|s| s.temperature.to_reduced()).fold(f64::INFINITY, f64::min);
        let thigh = tcs.iter().map(|s| s.temperature.to_reduced()).fold(0.0, f64::max);
        // the quantifier of the property: pure critical temperatures differ by less than a factor 1.8
        if thigh / tlow >= 1.8 {
            continue;
        }
        for x in e.compositions(tier) {
            for tr in [0.7, 0.85] {
                oc.push((e.id.clone(), e.eos.clone(), x.clone(), tlow * tr));
            }
        }
    }
    {
        // a ternary hydrocarbon mixture inside the quantifier
        let eos: M = std::sync::Arc::new(feos::ResidualModel::PcSaft(feos::pcsaft::PcSaft::new(zoo::pcsaft_params(&[(&["propane", "butane", "hexane"], "gross2001")]))));
        for x in [arr1(&[0.3, 0.5, 0.2]), arr1(&[0.9, 0.05, 0.05]), arr1(&[0.05, 0.05, 0.9])] {
            for tr in [0.7, 0.85] {
                oc.push(("pcsaft:propane+butane+hexane".into(), eos.clone(), x.clone(), 369.8 * tr));
            }
        }
    }
    ctx.run(&oc, |c| format!("other|{}|x={}|T={:.2}", c.0, super::common::xs(&c.2), c.3), other_case);
    // partially miscible system
    let lle: Vec<(String, M)> = vec![("pcsaft:water+hexane".into(), std::sync::Arc::new(feos::ResidualModel::PcSaft(feos::pcsaft::PcSaft::new(zoo::pcsaft_params(&[(&["water"], "gross2002"), (&["hexane"], "gross2001")])))))];
    ctx.run(&lle, |c| format!("lle|{}", c.0), lle_case);
    ctx.rule = format!("all unordered pairs of the 51 hydrocarbon records of gross2001 with T_c ratio < 1.8 ({} pairs{}; success clause for ratio < 1.5) x T in Tc_low x {:?} x x in {:?} x {{bubble(T), dew(T), bubble(p), dew(p), tp_flash at {:?} of the way from dew to bubble pressure, each flash also warm-started from that equilibrium at (T(1 +- 0.003), p(1 +- 0.01)) through both entry points, bubble/dew points with 4 non-default (inner, outer) option pairs}}; binary_vle (sub- and supercritical), bubble_point_line, dew_point_line on a pair subset; gc-PC-SAFT, SAFT-VR Mie, PR, PeTS, associating and ternary systems; water+hexane LLE flash, heteroazeotrope, lle diagram: conditions whenever Ok. Oracles: common T (exact), common p (1e-6), x_i phi_i equal (1e-5), phases distinct, specified composition/T/p echoed, p_bub >= p_dew, material balance 1e-12, feed between phase compositions, non-default inner options do not change the answer (1e-6), isobaric lle diagram on its temperature grid", ps.len(), if tier == Tier::Quick { ", every 4th" } else { "" }, TRS, XS, WS);
    ctx.assume("(T, x, pressure fraction) lattice; initial-guess dependence is C12's");
}
