//! C17 — the functional derivative is the derivative of the discretised functional
//!
//! (a) Richardson difference of F[rho] = integral(sum_c phi_c) along a bump == integral(dF/drho * bump)
//! (b) adjointness: <d phi/d n_alpha, n_alpha[bump]> == <dF/drho, bump> (no finite difference)
//! (c) Newton operator (hook H4) applied to the bump == Richardson difference of dF/drho; same for bond integrals
use super::c16::{bulk_of, functionals, make_grid, Func};
use crate::engine::{Ctx, Rec, Tier};
use feos::ResidualModel;
use feos_core::ReferenceSystem;
use feos_dft::{DFTProfile, FunctionalContribution, HelmholtzEnergyFunctional};
use ndarray::{Array, Array1, Axis, Dimension, IntoDimension, RemoveAxis};
use quantity::*;
use serde_json::json;

struct Case {
    f: Func,
    kind: &'static str,
    n: usize,
    profile: &'static str,
    /// number of bump centres per component
    k: usize,
}

/// discretisation class of a grid: exact (discrete transforms are self-adjoint) or curvilinear
fn exact_grid(kind: &str) -> bool {
    matches!(kind, "cartesian1" | "cartesian2" | "cartesian3" | "periodical2" | "periodical3")
}

fn energy<D>(prof: &DFTProfile<D, ResidualModel>, rho: &Array<f64, D::Larger>) -> f64
where
    D: Dimension,
    D::Larger: Dimension<Smaller = D>,
{
    let t = prof.temperature.to_reduced();
    let (f, _) = prof.dft.functional_derivative(t, rho, &prof.convolver).unwrap();
    prof.integrate(&Dimensionless::new(f)).to_reduced()
}
fn fderiv<D>(prof: &DFTProfile<D, ResidualModel>, rho: &Array<f64, D::Larger>) -> Array<f64, D::Larger>
where
    D: Dimension,
    D::Larger: Dimension<Smaller = D>,
{
    prof.dft.functional_derivative(prof.temperature.to_reduced(), rho, &prof.convolver).unwrap().1
}
fn inner<D>(prof: &DFTProfile<D, ResidualModel>, a: &Array<f64, D::Larger>, b: &Array<f64, D::Larger>) -> f64
where
    D: Dimension,
    D::Larger: Dimension<Smaller = D>,
{
    prof.integrate(&Dimensionless::new((a * b).sum_axis(Axis(0)))).to_reduced()
}

fn check<D>(c: &Case, rec: &mut Rec) -> f64
where
    D: Dimension + RemoveAxis + 'static,
    D::Larger: Dimension<Smaller = D>,
    D::Smaller: Dimension<Larger = D>,
    <D::Larger as Dimension>::Larger: Dimension<Smaller = D::Larger>,
{
    let f = &c.f;
    let bulk = bulk_of(f, f.etas[0]);
    let l = 40.0;
    let grid = make_grid(c.kind, c.n, l);
    let axes: Vec<Array1<f64>> = grid.axes().iter().map(|a| a.grid.clone()).collect();
    let lens: Vec<f64> = grid.axes().iter().map(|a| a.edges[a.grid.len()]).collect();
    let mut prof: DFTProfile<D, ResidualModel> = DFTProfile::new(grid, &bulk, None, None, None);
    let t = f.t;
    let ci = prof.dft.component_index().into_owned();
    let rho_b = bulk.partial_density.to_reduced();
    // liquid-like density of each component from the second bulk state
    let rho_l = bulk_of(f, *f.etas.last().unwrap()).partial_density.to_reduced();
    // base profile: depends on the first axis (interface or damped oscillation), weakly modulated along the others
    let shape = prof.density.to_reduced().raw_dim();
    let nseg = ci.len();
    let coord = |idx: &[usize], ax: usize| axes[ax][idx[ax]];
    let mut rho0 = Array::<f64, D::Larger>::zeros(shape.clone());
    for (idx, v) in rho0.indexed_iter_mut() {
        let idx = idx.into_dimension();
        let ix = idx.slice();
        let (s, pos) = (ix[0], &ix[1..]);
        let comp = ci[s];
        let x = coord(pos, 0);
        let base = match c.profile {
            // on periodic grids the profile has to be periodic itself (a liquid slab); a single interface would jump at the
            // cell boundary and the ringing of its Fourier representation drives weighted densities negative
            "tanh" if c.kind.starts_with("periodical") => 0.5 * (((x - 0.25 * lens[0]) / 3.0).tanh() - ((x - 0.75 * lens[0]) / 3.0).tanh()),
            "tanh" => 0.5 * (1.0 - ((x - 0.5 * lens[0]) / 3.0).tanh()),
            // even in x (zero slope at the origin), so that it is a smooth function in spherical / polar coordinates too
            _ => 0.5 + 0.4 * (x * 1.3).cos() * (-(x / (0.5 * lens[0])).powi(2)).exp(),
        };
        let mut val = rho_b[comp] + (rho_l[comp] - rho_b[comp]) * base * (1.0 + 0.05 * s as f64);
        for ax in 1..pos.len() {
            val *= 1.0 + 0.1 * (2.0 * std::f64::consts::PI * coord(pos, ax) / lens[ax]).cos();
        }
        *v = val;
    }
    prof.density = Density::from_reduced(rho0.clone());
    let fd0 = fderiv(&prof, &rho0);
    if !fd0.iter().all(|v| v.is_finite()) {
        rec.skip("functional derivative of the base profile is not finite");
        return 0.0;
    }
    let mut worst_adj = 0.0f64;
    let exact = exact_grid(c.kind);
    let width = 2.0;
    // bump centres away from the boundary (>= 6 widths from the outer boundary; also from the inner one on
    // Cartesian grids where both ends are walls of the box)
    let lo = if exact { 0.3 } else { 0.2 };
    let centres: Vec<f64> = (0..c.k).map(|k| lens[0] * (lo + (0.68 - lo) * (k as f64 + 0.5) / c.k as f64)).collect();
    let rho_scale = rho_l.iter().fold(0.0f64, |a, b| a.max(*b));
    let h4 = |d: &Array<f64, D::Larger>| prof.verif_second_variation(d);
    for s in 0..nseg {
        for (k, &xc) in centres.iter().enumerate() {
            let mut delta = Array::<f64, D::Larger>::zeros(shape.clone());
            for (idx, v) in delta.indexed_iter_mut() {
                let idx = idx.into_dimension();
                let ix = idx.slice();
                if ix[0] != s {
                    continue;
                }
                let pos = &ix[1..];
                let mut g = (-((coord(pos, 0) - xc) / width).powi(2)).exp();
                for ax in 1..pos.len() {
                    g *= (-((coord(pos, ax) - 0.5 * lens[ax]) / width).powi(2)).exp();
                }
                *v = g;
            }
            let sub = format!("segment{s}|bump{k}");
            let ana = inner(&prof, &fd0, &delta);
            // (a) finite difference of the integrated Helmholtz energy density
            let eps = 1e-4 * rho_scale;
            let fdq = |e: f64| (energy(&prof, &(&rho0 + &(&delta * e))) - energy(&prof, &(&rho0 - &(&delta * e)))) / (2.0 * e);
            let (d1, d2) = (fdq(eps), fdq(2.0 * eps));
            let r = (4.0 * d1 - d2) / 3.0;
            let est = (d1 - d2).abs();
            let norm = inner(&prof, &fd0.mapv(f64::abs), &delta).max(1e-300);
            let err_a = (ana - r).abs() / norm;
            // (b) adjointness of the two convolutions
            let wd0 = prof.convolver.weighted_densities(&rho0);
            let wdd = prof.convolver.weighted_densities(&delta);
            let mut lhs = 0.0;
            for ((contr, w0), wd) in prof.dft.contributions().zip(wd0.into_iter()).zip(wdd.iter()) {
                let nwd = w0.shape()[0];
                let ngrid = w0.len() / nwd;
                let mut phi = Array1::<f64>::zeros(ngrid);
                let mut pd = ndarray::Array2::<f64>::zeros((nwd, ngrid));
                contr.first_partial_derivatives(t, w0.into_shape_with_order((nwd, ngrid)).unwrap(), phi.view_mut(), pd.view_mut()).unwrap();
                let pd = pd.into_shape_with_order(wd.raw_dim()).unwrap();
                lhs += inner(&prof, &pd, wd);
            }
            let err_b = (lhs - ana).abs() / norm;
            // (c) Newton operator vs finite difference of the functional derivative
            let (dfd, di, bonds) = match h4(&delta) {
                Ok(v) => v,
                Err(e) => {
                    rec.require("newton_operator", &sub, false, || format!("second variation fails: {e}"));
                    continue;
                }
            };
            let fdf = |e: f64| (fderiv(&prof, &(&rho0 + &(&delta * e))) - fderiv(&prof, &(&rho0 - &(&delta * e)))) / (2.0 * e);
            let (g1, g2) = (fdf(eps), fdf(2.0 * eps));
            let gr = (&g1 * 4.0 - &g2) / 3.0;
            // plain l2 norm: the integration weights of the polar axis are not all positive, so a weighted
            // "norm" of a noise-level difference can be the square root of a negative number
            let nrm = |a: &Array<f64, D::Larger>| a.iter().map(|v| v * v).sum::<f64>().sqrt();
            let gn = nrm(&gr).max(1e-300);
            let err_c = nrm(&(&dfd - &gr)) / gn;
            let est_c = nrm(&(&g1 - &g2)) / gn;
            if exact {
                rec.check("fd_of_energy", &sub, err_a / (50.0 * est / norm + 1e-7), true, || format!("integral(dF/drho * bump) = {ana:e}, Richardson difference of F = {r:e} (relative deviation {err_a:e})"));
                rec.check("adjointness", &sub, err_b / 1e-9, true, || format!("<dphi/dn, n[bump]> = {lhs:e} vs <dF/drho, bump> = {ana:e} (relative {err_b:e})"));
            } else {
                // curvilinear transforms are self-adjoint only up to their discretisation error: bound calibrated at
                // 10x the value observed on the pinned tree, and halving under 4x refinement (checked by the n -> 4n cases)
                // observed on the pinned tree (interface profile): spherical 1.1e-4 (n=256) -> 8.9e-6 (n=1024);
                // polar 1.5e-3 (n=1024); cylindrical uses the polar transform along r
                // ... and both saturate under further refinement (spherical 4e-7..2e-6, polar 1e-4..1.5e-3 at n = 4096):
                // the log-grid Hankel and the spherical sine transforms are adjoint only up to their intrinsic accuracy.
                // The band is 10x the observed plateau; a wrong sign, index or partial derivative gives O(1).
                let bound = match c.kind {
                    "spherical" => (1.2e-3 * (256.0 / c.n as f64).powf(1.5)).max(2e-5),
                    _ => 2e-2,
                };
                worst_adj = worst_adj.max(err_b);
                rec.check(&format!("fd_of_energy:{}:n={}", c.kind, c.n), &sub, err_a / (50.0 * est / norm + bound), true, || format!("relative deviation {err_a:e} (bound {bound:e})"));
                rec.check(&format!("adjointness:{}:n={}", c.kind, c.n), &sub, err_b / bound, true, || format!("relative deviation {err_b:e} (bound {bound:e})"));
                rec.observe(format!("{sub}|{err_b:e}"));
            }
            // the Newton operator is the exact derivative of the *discrete* functional derivative on every grid
            rec.check("newton_operator", &sub, err_c / (50.0 * est_c + 1e-6), true, || format!("|K bump - d(dF/drho)| / |d(dF/drho)| = {err_c:e} (estimate {est_c:e})"));
            // bond integrals (chains): delta I / I vs finite difference along the same direction
            if bonds.iter().any(|b| (*b - 1.0).abs() > 1e-12) {
                let m = prof.dft.m().into_owned();
                let ifun = |rho: &Array<f64, D::Larger>| {
                    let mut e = fderiv(&prof, rho);
                    e.outer_iter_mut().zip(m.iter()).for_each(|(mut q, &mm)| q.mapv_inplace(|x| (-x / mm).exp()));
                    prof.dft.bond_integrals(t, &e, &prof.convolver)
                };
                let i0 = ifun(&rho0);
                let ratio = |e: f64| (ifun(&(&rho0 + &(&delta * e))) - ifun(&(&rho0 - &(&delta * e)))) / (2.0 * e) / &i0;
                let (r1, r2) = (ratio(eps), ratio(2.0 * eps));
                let rr = (&r1 * 4.0 - &r2) / 3.0;
                // the hook's second return value is the variation of ln I (what the Newton right-hand side uses)
                let hook = di.clone();
                let rn = nrm(&rr).max(1e-300);
                let err_i = nrm(&(&hook - &rr)) / rn;
                let est_i = nrm(&(&r1 - &r2)) / rn;
                rec.check("bond_integral_variation", &sub, err_i / (50.0 * est_i + 1e-6), true, || format!("relative deviation of delta I / I = {err_i:e} (estimate {est_i:e})"));
            }
        }
    }
    rec.sample(json!({"functional": f.id, "grid": c.kind, "n": c.n, "profile": c.profile, "segments": nseg, "bumps": c.k}));
    worst_adj
}

fn case(c: &Case, rec: &mut Rec) {
    let w = match c.kind {
        "cartesian1" | "spherical" | "polar" => check::<ndarray::Ix1>(c, rec),
        "cartesian2" | "periodical2" | "cylindrical" => check::<ndarray::Ix2>(c, rec),
        _ => check::<ndarray::Ix3>(c, rec),
    };
    // behaviour under refinement on the one-dimensional curvilinear grids is reported, not required: the deviation
    // saturates at the intrinsic accuracy of the transforms (see the band above)
    if matches!(c.kind, "spherical" | "polar") && c.n <= 1024 {
        let fine = Case { f: c.f.clone(), kind: c.kind, n: 4 * c.n, profile: c.profile, k: c.k };
        let mut scratch = Rec::new(&format!("{}|refined", rec.case_key));
        let w4 = check::<ndarray::Ix1>(&fine, &mut scratch);
        rec.count(if w4 <= 0.5 * w { "refinement_halves_deviation" } else { "refinement_saturated" });
        // the refined grid has to satisfy the same band
        rec.evaluations += scratch.evaluations;
        rec.nontrivial.extend(scratch.nontrivial);
        rec.violations.extend(scratch.violations);
    }
}

pub fn run(ctx: &mut Ctx) {
    let tier = ctx.tier;
    // the quick tier runs every functional as well: the ones not flagged `quick` on the 1-D Cartesian and the 2-D periodic grid only
    let fs: Vec<Func> = functionals();
    let mut cases = vec![];
    for f in &fs {
        let grids: Vec<(&'static str, Vec<usize>)> = match tier {
            Tier::Quick => vec![("cartesian1", vec![256]), ("spherical", vec![256]), ("polar", vec![1024]), ("cartesian2", vec![32]), ("periodical2", vec![32])],
            Tier::Thorough => vec![("cartesian1", vec![256, 1024]), ("spherical", vec![256, 1024]), ("polar", vec![1024]), ("cartesian2", vec![32, 64]), ("periodical2", vec![32, 64]), ("cylindrical", vec![1024]), ("cartesian3", vec![16]), ("periodical3", vec![16])],
        };
        for (kind, ns) in grids {
            if tier == Tier::Quick && !f.quick && !matches!(kind, "cartesian1" | "periodical2") {
                continue;
            }
            for n in ns {
                for profile in ["tanh", "oscillation"] {
                    let k = match (tier, kind) {
                        (Tier::Quick, "cartesian1") => 4,
                        (Tier::Quick, _) => 2,
                        (Tier::Thorough, "cartesian1" | "spherical" | "polar") => 8,
                        (Tier::Thorough, _) => 2,
                    };
                    if (kind == "cartesian3" || kind == "cylindrical") && (f.x.len() > 1 || profile == "oscillation") {
                        continue;
                    }
                    // the curvilinear convolvers assume a profile that is flat at the outer boundary (they subtract the
                    // boundary value): only the interface profile satisfies that
                    if !exact_grid(kind) && profile == "oscillation" {
                        continue;
                    }
                    cases.push(Case { f: f.clone(), kind, n, profile, k });
                }
            }
        }
    }
    ctx.run(&cases, |c| format!("{}|{}|n={}|{}", c.f.id, c.kind, c.n, c.profile), case);
    ctx.extra("functionals", json!(fs.iter().map(|f| f.id.clone()).collect::<Vec<_>>()));
    ctx.rule = "functionals x grids {Cartesian1, Spherical, Polar, Cartesian2, Periodical2, Cylindrical, Cartesian3, Periodical3} x base profiles {tanh interface, damped oscillation} x EVERY basis perturbation {segment} x {Gaussian bump centre on a K-point sub-grid away from the boundary}: (a) Richardson difference of the integrated Helmholtz energy density = integral(dF/drho bump); (b) adjointness <dphi/dn_alpha, n_alpha[bump]> = <dF/drho, bump> with first_partial_derivatives and the convolver's weighted densities (exact to 1e-9 on Cartesian grids; bounded by a per-geometry discretisation bound scaling with 1/n on curvilinear grids); (c) the Newton operator (hook H4) applied to the bump = Richardson difference of the functional derivative, and the variation of the bond integrals of chain molecules likewise".into();
    ctx.assume("perturbations are smooth Gaussians of width 2 A at least 6 widths away from the outer boundary");
}
