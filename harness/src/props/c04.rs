//! C04 — pure-component phase equilibria satisfy the equilibrium conditions and are found
use super::c15::{physical_critical_point, pure_cases, PureCase};
use crate::engine::{Ctx, Rec, Tier};
use crate::zoo;
use feos::ResidualModel;
use feos_core::verif::with_plan;
use feos_core::{Contributions, PhaseDiagram, PhaseEquilibrium, ReferenceSystem, State};
use quantity::*;
use serde_json::json;
use std::sync::Arc;

type M = Arc<ResidualModel>;
type Vle = PhaseEquilibrium<ResidualModel, 2>;

pub fn tr_lattice(tr_min: f64, tier: Tier) -> Vec<f64> {
    // the quick lattice (8 points) is a subset of the thorough one (8 + 55 points)
    let mut v: Vec<f64> = (0..8).map(|k| tr_min + (0.99 - tr_min) * k as f64 / 7.0).collect();
    if tier == Tier::Thorough {
        v.extend((0..55).map(|k| tr_min + (0.99 - tr_min) * k as f64 / 54.0));
        v.sort_by(|a, b| a.partial_cmp(b).unwrap());
        v.dedup_by(|a, b| (*a - *b).abs() < 1e-12);
    }
    v
}

/// total chemical potential in reduced units up to the (phase-independent) de Broglie term
fn mu_tot(s: &State<ResidualModel>) -> f64 {
    s.residual_chemical_potential().to_reduced()[0] + s.temperature.to_reduced() * s.density.to_reduced().ln()
}

/// equilibrium conditions of a returned pure VLE
pub fn check_conditions(rec: &mut Rec, sub: &str, vle: &Vle, t_spec: Option<f64>) {
    let (v, l) = (vle.vapor(), vle.liquid());
    let t = v.temperature.to_reduced();
    rec.require("equal_T", sub, v.temperature == l.temperature && t_spec.map(|ts| ts == t).unwrap_or(true), || format!("T_v = {}, T_l = {}, specified {t_spec:?}", v.temperature, l.temperature));
    let (pv, pl) = (v.pressure(Contributions::Total).to_reduced(), l.pressure(Contributions::Total).to_reduced());
    // the liquid is stiff: a density error at solver tolerance changes p_l by rho_l dp/drho_l * 1e-12
    let stiff = l.density.to_reduced() * l.dp_drho(Contributions::Total).to_reduced();
    let lim = 1e-6 * pv.abs() + 1e-9 * stiff.abs();
    rec.check("equal_p", sub, (pv - pl).abs() / lim, true, || format!("p_v = {pv:e}, p_l = {pl:e} (limit {lim:e})"));
    let dmu = (mu_tot(v) - mu_tot(l)).abs() / t;
    rec.check("equal_mu", sub, dmu / 1e-9, true, || format!("|mu_v - mu_l|/RT = {dmu:e}"));
    rec.require("rho_v<rho_l", sub, v.density < l.density && v.density.to_reduced() > 0.0, || format!("rho_v = {}, rho_l = {}", v.density, l.density));
}

struct TCase {
    k: usize,
    tr: f64,
}

fn vle_case(cases: &[PureCase], tcs: &[Option<(f64, f64)>], c: &TCase, rec: &mut Rec) {
    let pc = &cases[c.k];
    let Some((tc, _)) = tcs[c.k] else {
        rec.skip("no critical point (reported by C15)");
        return;
    };
    let eos = (pc.build)().unwrap();
    let t = tc * c.tr;
    let tq = Temperature::from_reduced(t);
    // undisturbed solve with the recorded trace of cascade stages
    let (res, trace) = with_plan(&[], || PhaseEquilibrium::pure(&eos, tq, None, Default::default()));
    for s in &trace {
        rec.count(&format!("site:{}", s.0));
    }
    let vle = match res {
        Ok(v) => v,
        Err(e) => {
            // success clause of the property on the stated domain
            rec.require("found", "", false, || format!("{}: {}: no VLE at Tr = {:.4} (Tc = {tc}): {e}", pc.file, pc.name, c.tr));
            return;
        }
    };
    rec.require("found", "", true, String::new);
    check_conditions(rec, "pure_t", &vle, Some(t));
    let p = vle.vapor().pressure(Contributions::Total);
    // pure(T) and pure(p(T)) are mutually inverse
    match PhaseEquilibrium::pure(&eos, p, None, Default::default()) {
        Ok(vp) => {
            let dt = (vp.vapor().temperature.to_reduced() - t).abs() / t;
            rec.check("inverse", "T", dt / 1e-9, true, || format!("pure(p(T)) returns T = {} instead of {t}", vp.vapor().temperature));
            let dr = ((vp.liquid().density - vle.liquid().density) / vle.liquid().density).into_value().abs().max(((vp.vapor().density - vle.vapor().density) / vle.vapor().density).into_value().abs());
            rec.check("inverse", "rho", dr / 1e-7, true, || format!("densities of pure(p(T)) differ by {dr:e}"));
            check_conditions(rec, "pure_p", &vp, None);
            let pe = ((vp.vapor().pressure(Contributions::Total) - p) / p).into_value().abs();
            rec.check("spec_echo", "p", pe / 1e-9, true, || format!("pure(p) returns a state at p off by {pe:e}"));
        }
        // "solving at given T and at the resulting p are mutually inverse": at a pressure that IS the saturation pressure of a
        // temperature inside the range the pressure specification has a solution, so a failure is a violation (the failures of
        // the pinned tree are listed as findings, one per record and temperature)
        Err(e) => rec.require("inverse_found", "", false, || format!("{}: {}: pure(p) fails at p = p_sat(Tr = {:.4}) = {p}: {e}", pc.file, pc.name, c.tr)),
    }
    // helper entry points agree with pure
    if let Some(Some(pv)) = PhaseEquilibrium::vapor_pressure(&eos, tq).first() {
        rec.check("helpers", "vapor_pressure", ((*pv - p) / p).into_value().abs() / 1e-10, true, || format!("vapor_pressure = {pv}, pure = {p}"));
    } else {
        rec.require("helpers", "vapor_pressure", false, || "vapor_pressure returned None where pure succeeds".into());
    }
    if let Some(Some(tb)) = PhaseEquilibrium::boiling_temperature(&eos, p).first() {
        rec.check("helpers", "boiling_temperature", (tb.to_reduced() - t).abs() / t / 1e-9, true, || format!("boiling_temperature(p_sat(T)) = {tb}, T = {tq}"));
    }
    if let Some(Some(v2)) = PhaseEquilibrium::vle_pure_comps(&eos, tq).first() {
        rec.check("helpers", "vle_pure_comps", ((v2.vapor().pressure(Contributions::Total) - p) / p).into_value().abs() / 1e-10, true, || "vle_pure_comps differs from pure".into());
    }
    // ---- deviations: force the earlier stages of the initialisation cascade to fail
    // initial state from a neighbouring temperature so that the 'given' stage exists
    if c.tr * 0.95 >= pc.tr_min {
        if let Ok(init) = PhaseEquilibrium::pure(&eos, tq * 0.95, None, Default::default()) {
            let plans: [&[(&'static str, usize)]; 3] = [&[], &[("pure_t.given", 0)], &[("pure_t.given", 0), ("pure_t.ideal_gas", 0)]];
            for plan in plans {
                let (r, tr) = with_plan(plan, || PhaseEquilibrium::pure(&eos, tq, Some(&init), Default::default()));
                let pname = format!("{:?}", plan.iter().map(|p| p.0).collect::<Vec<_>>());
                // a divergence between plan and trace is a machinery error
                let forced: usize = tr.iter().filter(|s| s.2).count();
                if forced != plan.len() {
                    rec.count("plan_not_reached");
                }
                match r {
                    Ok(v2) => {
                        check_conditions(rec, &format!("deviation{pname}"), &v2, Some(t));
                        let e = ((v2.vapor().pressure(Contributions::Total) - p) / p).into_value().abs();
                        rec.check("deviation_same_result", &pname, e / 1e-8, !plan.is_empty(), || format!("with stages {pname} forced to fail the vapor pressure differs by {e:e}"));
                    }
                    // the property is conditional: a later stage may fail
                    Err(_) => rec.skip("later cascade stage fails when earlier ones are forced to fail"),
                }
            }
        }
    }
    rec.sample(json!({"record": format!("{}|{}", pc.file, pc.name), "Tr": c.tr, "p_sat_reduced": p.to_reduced(), "stages": trace.iter().map(|s| s.0).collect::<Vec<_>>()}));
}

fn diagram_case(cases: &[PureCase], tcs: &[Option<(f64, f64)>], c: &(usize, usize), rec: &mut Rec) {
    let (k, np) = *c;
    let pc = &cases[k];
    let Some((tc, pcrit)) = tcs[k] else {
        rec.skip("no critical point");
        return;
    };
    let eos = (pc.build)().unwrap();
    let tmin = Temperature::from_reduced(tc * pc.tr_min.max(0.5));
    // critical temperature passed as initial value so that the physical critical point is used
    let d = match PhaseDiagram::pure(&eos, tmin, np, Some(Temperature::from_reduced(tc)), Default::default()) {
        Ok(d) => d,
        Err(e) => {
            rec.require("diagram", "builds", false, || format!("PhaseDiagram::pure fails: {e}"));
            return;
        }
    };
    rec.require("diagram", "n_states", d.states.len() == np, || format!("{} states instead of {np}", d.states.len()));
    let mut mono = true;
    for w in d.states.windows(2) {
        mono &= w[0].vapor().temperature < w[1].vapor().temperature
            && w[0].vapor().density < w[1].vapor().density
            && w[0].liquid().density > w[1].liquid().density
            && w[0].vapor().pressure(Contributions::Total) < w[1].vapor().pressure(Contributions::Total);
    }
    rec.require("diagram", "monotone", mono, || "T, p, rho_v not strictly increasing or rho_l not strictly decreasing".into());
    if let Some(last) = d.states.last() {
        let e = (last.vapor().temperature.to_reduced() - tc).abs() / tc;
        let ep = (last.vapor().pressure(Contributions::Total).to_reduced() - pcrit).abs() / pcrit;
        rec.check("diagram", "last_is_critical_point", e.max(ep) / 1e-7, true, || format!("last state T = {}, Tc = {tc}", last.vapor().temperature));
        rec.require("diagram", "last_phases_equal", last.vapor().density == last.liquid().density, || "last state is not a single critical state".into());
    }
    for (i, s) in d.states.iter().enumerate().take(d.states.len().saturating_sub(1)) {
        check_conditions(rec, &format!("diagram_point{i}"), s, None);
    }
}

/// models outside the success clause: conditions whenever Ok
fn other_case(c: &(String, M, f64, f64), rec: &mut Rec) {
    let (_, eos, tc, tr) = c;
    match PhaseEquilibrium::pure(eos, Temperature::from_reduced(tc * tr), None, Default::default()) {
        Ok(v) => {
            check_conditions(rec, "pure_t", &v, Some(tc * tr));
            if let Ok(vp) = PhaseEquilibrium::pure(eos, v.vapor().pressure(Contributions::Total), None, Default::default()) {
                rec.check("inverse", "T", (vp.vapor().temperature.to_reduced() - tc * tr).abs() / (tc * tr) / 1e-9, true, || "pure(p(T)) != T".into());
            }
        }
        Err(_) => rec.skip("pure fails (conditional)"),
    }
}

pub fn run(ctx: &mut Ctx) {
    ctx.level = "fault_enumeration";
    let tier = ctx.tier;
    let cases = pure_cases();
    // critical point of every record (physical one)
    let idx: Vec<usize> = (0..cases.len()).collect();
    let tcs: Vec<Option<(f64, f64)>> = {
        let res = std::sync::Mutex::new(vec![None; cases.len()]);
        let next = std::sync::atomic::AtomicUsize::new(0);
        std::thread::scope(|sc| {
            for _ in 0..ctx.threads {
                sc.spawn(|| loop {
                    let k = next.fetch_add(1, std::sync::atomic::Ordering::Relaxed);
                    if k >= idx.len() {
                        break;
                    }
                    let v = (cases[k].build)().ok().and_then(|e| physical_critical_point(&e)).map(|s| (s.temperature.to_reduced(), s.pressure(Contributions::Total).to_reduced()));
                    res.lock().unwrap()[k] = v;
                });
            }
        });
        res.into_inner().unwrap()
    };
    let mut tcases = vec![];
    for (k, c) in cases.iter().enumerate() {
        if c.vle_excepted {
            continue;
        }
        for tr in tr_lattice(c.tr_min, tier) {
            tcases.push(TCase { k, tr });
        }
    }
    ctx.run(&tcases, |c| format!("{}|{}|Tr={:.4}", cases[c.k].file, cases[c.k].name, c.tr), |c, rec| vle_case(&cases, &tcs, c, rec));
    // phase diagrams
    let mut dcases = vec![];
    for (k, c) in cases.iter().enumerate() {
        if c.vle_excepted {
            continue;
        }
        let gs = ["pcsaft/gross2001.json", "pcsaft/gross2002.json", "pcsaft/gross2006.json", "pcsaft/gross2005_fit.json"].contains(&c.file.as_str());
        let nps: Vec<usize> = match tier {
            Tier::Quick => {
                if k % 25 == 0 {
                    vec![3, 5, 9]
                } else {
                    vec![]
                }
            }
            Tier::Thorough => {
                if gs {
                    vec![3, 4, 5, 9, 17, 50, 200]
                } else if k % 5 == 0 {
                    vec![3, 5, 17, 50]
                } else {
                    vec![]
                }
            }
        };
        for np in nps {
            dcases.push((k, np));
        }
    }
    ctx.run(&dcases, |c| format!("diagram|{}|{}|n={}", cases[c.0].file, cases[c.0].name, c.1), |c, rec| diagram_case(&cases, &tcs, c, rec));
    // other models: conditions only
    let mut others: Vec<(String, M, f64, f64)> = vec![];
    for e in zoo::zoo(Tier::Thorough) {
        if e.n == 1 && (e.id.starts_with("pr:") || e.id.starts_with("pets:") || e.id.starts_with("uv:") || e.id.starts_with("gcpcsaft:") || e.id.starts_with("epcsaft:water")) {
            if let Ok(cp) = State::critical_point(&e.eos, None, None, Default::default()) {
                for tr in tr_lattice(0.5, tier) {
                    others.push((e.id.clone(), e.eos.clone(), cp.temperature.to_reduced(), tr));
                }
            }
        }
    }
    ctx.run(&others, |c| format!("other|{}|Tr={:.4}", c.0, c.3), other_case);
    ctx.extra("records", json!(cases.len()));
    ctx.extra("records_without_critical_point", json!(tcs.iter().filter(|t| t.is_none()).count()));
    ctx.rule = format!("every pure record of the shipped PC-SAFT, SAFT-VR Mie and SAFT-VRQ Mie files ({}) x reduced temperatures {} in [0.45|0.6, 0.99]: success clause, equal T (exact), equal p (1e-6 p + 1e-9 rho_l dp/drho_l), equal mu (1e-9 RT), rho_v < rho_l, pure(T) o pure(p) = id, vapor_pressure / boiling_temperature / vle_pure_comps = pure; deviation enumeration: with an initial state from 0.95 T, every prefix of the initialisation cascade (given state, ideal gas) forced to fail through the H3 sites -> same result whenever Ok; PhaseDiagram::pure for npoints in {{3,4,5,9,17,50,200}}: n states, strictly monotone, last = critical point; PR, PeTS, uv-theory, gc-PC-SAFT pure: conditions whenever Ok. distinct_nontrivial = distinct (record, T_r, oracle) keys", cases.len(), tr_lattice(0.45, tier).len());
    ctx.assume("temperatures on the stated lattice; success clause as calibrated by the property (helium FH2 excepted)");
}
