//! helpers shared by the property modules
use crate::engine::Tier;
use crate::zoo::{Entry, Model};
use feos::ResidualModel;
use feos_core::{ReferenceSystem, Residual, State};
use ndarray::Array1;
use quantity::*;

pub type St = State<ResidualModel>;

pub fn mk(eos: &Model, t: f64, v: f64, n: &Array1<f64>) -> St {
    State::new_nvt(eos, Temperature::from_reduced(t), Volume::from_reduced(v), &Moles::from_reduced(n.clone())).unwrap()
}

pub fn rho_max(eos: &Model, x: &Array1<f64>) -> f64 {
    eos.max_density(Some(&Moles::from_reduced(x.clone()))).unwrap().to_reduced()
}
/// density scale of a zoo entry: the model's own `max_density` unless the entry overrides it
/// (FMTFunctional::compute_max_density is not a packing bound: it corresponds to a packing
/// fraction of about 10, so the lattice would sit in the NaN region of the hard-sphere term)
pub fn rho_scale(e: &Entry, x: &Array1<f64>) -> f64 {
    match &e.hs_sigma {
        Some(sig) => {
            let xs = x / x.sum();
            let v: f64 = xs.iter().zip(sig.iter()).map(|(x, s)| x * s * s * s).sum::<f64>() * std::f64::consts::PI / 6.0;
            0.5 / v
        }
        None => rho_max(&e.eos, x),
    }
}

pub fn t_factors(tier: Tier) -> Vec<f64> {
    match tier {
        Tier::Quick => vec![0.4, 0.6, 0.8, 1.0, 1.5, 3.0],
        Tier::Thorough => vec![0.4, 0.45, 0.5, 0.55, 0.6, 0.65, 0.7, 0.75, 0.8, 0.85, 0.9, 0.95, 1.0, 1.05, 1.1, 1.2, 1.35, 1.5, 1.75, 2.0, 2.5, 3.0, 4.0, 6.0],
    }
}
pub fn eta_factors(tier: Tier) -> Vec<f64> {
    match tier {
        Tier::Quick => vec![1e-6, 1e-3, 0.05, 0.1, 0.3, 0.5, 0.7, 0.9],
        Tier::Thorough => vec![1e-8, 1e-6, 1e-5, 1e-4, 1e-3, 3e-3, 1e-2, 0.02, 0.05, 0.075, 0.1, 0.15, 0.2, 0.25, 0.3, 0.35, 0.4, 0.45, 0.5, 0.55, 0.6, 0.65, 0.7, 0.75, 0.8, 0.85, 0.9, 0.95],
    }
}

/// One lattice case: model x composition x temperature factor x density factor.
#[derive(Clone)]
pub struct StateCase {
    pub entry: Entry,
    pub x: Array1<f64>,
    pub tf: f64,
    pub eta: f64,
    /// an absolute temperature that has to be hit bitwise (a knot of a tabulated correlation); overrides tref * tf
    pub t_abs: Option<f64>,
}
impl StateCase {
    pub fn key(&self) -> String {
        format!("{}|x={}|T={}|eta={}", self.entry.id, xs(&self.x), self.tf, self.eta)
    }
    pub fn t(&self) -> f64 {
        self.t_abs.unwrap_or(self.entry.tref * self.tf)
    }
    pub fn v(&self) -> f64 {
        1.0 / (rho_scale(&self.entry, &self.x) * self.eta)
    }
    pub fn state(&self) -> St {
        mk(&self.entry.eos, self.t(), self.v(), &self.x)
    }
}
pub fn xs(x: &Array1<f64>) -> String {
    x.iter().map(|v| format!("{v}")).collect::<Vec<_>>().join(",")
}

pub fn state_lattice(zoo: &[Entry], tier: Tier) -> Vec<StateCase> {
    let mut v = vec![];
    for e in zoo {
        for x in e.compositions_for(tier) {
            for &tf in &t_factors(tier) {
                for &eta in &eta_factors(tier) {
                    v.push(StateCase { entry: e.clone(), x: x.clone(), tf, eta, t_abs: None });
                }
            }
            // one input per shortcut visible in the code: the tabulated permittivity of the ePC-SAFT solvents is interpolated
            // piecewise linearly; the first and last tabulated temperatures (where the correlation is locally linear, so that
            // central differences are valid) are hit exactly
            if e.electrolyte {
                for t in [280.15, 360.15] {
                    for eta in [1e-3, 0.6] {
                        v.push(StateCase { entry: e.clone(), x: x.clone(), tf: t / e.tref, eta, t_abs: Some(t) });
                    }
                }
            }
        }
    }
    v
}

/// Relative evaluation noise of `q` around volume `v` (second differences at ulp-scale steps):
/// a smooth function contributes O(h^2) ~ 1e-27, so what is left is round-off/cancellation scatter.
pub fn noise(q: &dyn Fn(f64) -> f64, v: f64, scale: f64) -> f64 {
    // steps must be large enough to decorrelate the rounding of cancelling sub-expressions
    // (1 + 1e-6*(1+h) only changes for h >~ 1e-9) and small enough that the smooth part of the
    // second difference, O(h^2), stays below 1e-12 relative.
    let mut nu = 0.0f64;
    let q0 = q(v);
    for h in [1e-13, 1e-11, 1e-9, 1e-8, 1e-7] {
        let d2 = q(v * (1.0 + h)) - 2.0 * q0 + q(v * (1.0 - h));
        nu = nu.max(d2.abs());
    }
    (nu / scale.abs().max(1e-300)).max(1e-14)
}
