//! C12 — converged equilibria do not depend on the initial guess or on continuation order
//!
//! E1 guess lattice; E2 history: every subset of diagram points forced to fail (deviation engine, H3);
//! E3 nested numbers of points.
use super::c15::{physical_critical_point, pure_cases, PureCase};
use super::mix::*;
use crate::engine::{Ctx, Rec, Tier};
use feos_core::verif::with_plan;
use feos_core::{Contributions, PhaseDiagram, PhaseEquilibrium, ReferenceSystem};
use ndarray::arr1;
use quantity::*;
use serde_json::json;

fn rel(a: f64, b: f64) -> f64 {
    (a - b).abs() / b.abs().max(1e-300)
}
/// distance of two two-phase results (p, T, densities, compositions), relative
fn vle_distance(a: &Vle, b: &Vle) -> f64 {
    let mut d = rel(a.vapor().pressure(Contributions::Total).to_reduced(), b.vapor().pressure(Contributions::Total).to_reduced())
        .max(rel(a.vapor().temperature.to_reduced(), b.vapor().temperature.to_reduced()))
        .max(rel(a.liquid().density.to_reduced(), b.liquid().density.to_reduced()))
        .max(rel(a.vapor().density.to_reduced(), b.vapor().density.to_reduced()));
    for i in 0..a.vapor().molefracs.len() {
        d = d.max((a.vapor().molefracs[i] - b.vapor().molefracs[i]).abs()).max((a.liquid().molefracs[i] - b.liquid().molefracs[i]).abs());
    }
    d
}
const BAND: f64 = 1e-7;

// ---------------------------------------------------------------------------------------
// pure substances

fn pure_guess_case(cases: &[PureCase], c: &(usize, f64), rec: &mut Rec) {
    let pc = &cases[c.0];
    let Ok(eos) = (pc.build)() else { return };
    let Some(cp) = physical_critical_point(&eos) else { return };
    let t = cp.temperature * c.1;
    let Ok(base) = PhaseEquilibrium::pure(&eos, t, None, Default::default()) else {
        rec.skip("no VLE without guess (C04's findings)");
        return;
    };
    // initial states AT the requested temperature that are not the solution: two phases at a neighbouring pressure, and the
    // solution of a coarse tolerance that is to be refined
    let psat = base.vapor().pressure(Contributions::Total);
    let one = arr1(&[1.0]) * MOL;
    for pf in [0.8, 0.95, 1.05] {
        let Ok(init) = PhaseEquilibrium::new_npt(&eos, t, psat * pf, &one, &one) else {
            rec.skip("no two-phase initial state at this pressure (conditional)");
            continue;
        };
        match PhaseEquilibrium::pure(&eos, t, Some(&init), Default::default()) {
            Ok(g) => rec.check("pure_guess", &format!("init_same_T_p_factor={pf}"), vle_distance(&g, &base) / BAND, true, || format!("with two phases at {pf} p_sat and the requested temperature as initial state the result differs by {:e}", vle_distance(&g, &base))),
            Err(_) => rec.skip("pure with initial state fails (conditional)"),
        }
    }
    for tol in [1e-3, 1e-6] {
        let opt = feos_core::SolverOptions { tol: Some(tol), ..Default::default() };
        let Ok(coarse) = PhaseEquilibrium::pure(&eos, t, None, opt) else { continue };
        match PhaseEquilibrium::pure(&eos, t, Some(&coarse), Default::default()) {
            Ok(g) => rec.check("pure_guess", &format!("init_coarse_tol={tol:e}"), vle_distance(&g, &base) / BAND, true, || format!("refining the tol = {tol:e} solution with default options differs from the direct solve by {:e} (coarse solution itself: {:e})", vle_distance(&g, &base), vle_distance(&coarse, &base))),
            Err(_) => rec.skip("pure with initial state fails (conditional)"),
        }
    }
    // initial states from the near-critical region, several times closer to T_c than the requested temperature (the iteration
    // then starts from two nearly identical phases and may converge with the phases exchanged)
    for k in [0.25, 0.5] {
        let tr_init = 1.0 - (1.0 - c.1) * k;
        if tr_init > 0.996 {
            continue;
        }
        let Ok(init) = PhaseEquilibrium::pure(&eos, cp.temperature * tr_init, None, Default::default()) else { continue };
        match PhaseEquilibrium::pure(&eos, t, Some(&init), Default::default()) {
            Ok(g) => {
                rec.check("pure_guess", &format!("init_closer_to_Tc={k}"), vle_distance(&g, &base) / BAND, true, || format!("with the equilibrium at T_r = {tr_init:.4} as initial state the result differs by {:e}", vle_distance(&g, &base)));
                rec.require("pure_guess", &format!("init_closer_to_Tc={k}|rho_v<rho_l"), g.vapor().density < g.liquid().density, || format!("warm start from T_r = {tr_init:.4}: vapor() has density {}, liquid() {}", g.vapor().density, g.liquid().density));
            }
            Err(_) => rec.skip("pure with initial state fails (conditional)"),
        }
    }
    for f in [0.7, 0.9, 1.1, 1.3] {
        if c.1 * f >= 0.995 || c.1 * f < pc.tr_min {
            continue;
        }
        let Ok(init) = PhaseEquilibrium::pure(&eos, t * f, None, Default::default()) else { continue };
        match PhaseEquilibrium::pure(&eos, t, Some(&init), Default::default()) {
            Ok(g) => rec.check("pure_guess", &format!("init_T_factor={f}"), vle_distance(&g, &base) / BAND, true, || format!("with the equilibrium at {f} T as initial state the result differs by {:e}", vle_distance(&g, &base))),
            Err(_) => rec.skip("pure with initial state fails (conditional)"),
        }
        // pressure specification with the same guesses
        let p = base.vapor().pressure(Contributions::Total);
        if let (Ok(bp), Ok(gp)) = (PhaseEquilibrium::pure(&eos, p, None, Default::default()), PhaseEquilibrium::pure(&eos, p, Some(&init), Default::default())) {
            rec.check("pure_guess", &format!("pure_p|init_T_factor={f}"), vle_distance(&gp, &bp) / BAND, true, || "pure(p) depends on the initial state".into());
        }
    }
}

/// PhaseDiagram::pure with every subset of its points forced to fail; nested numbers of points
fn pure_history_case(cases: &[PureCase], c: &(usize, usize), rec: &mut Rec) {
    let pc = &cases[c.0];
    let np = c.1;
    let Ok(eos) = (pc.build)() else { return };
    let Some(cp) = physical_critical_point(&eos) else { return };
    let tc = cp.temperature;
    let tmin = tc * pc.tr_min.max(0.5);
    let (d0, tr0) = with_plan(&[], || PhaseDiagram::pure(&eos, tmin, np, Some(tc), Default::default()));
    let Ok(d0) = d0 else {
        rec.skip("diagram fails");
        return;
    };
    let calls: Vec<usize> = tr0.iter().filter(|s| s.0 == "pure.call").map(|s| s.1).collect();
    rec.require("trace", "calls", calls.len() == np - 1, || format!("{} pure calls for {np} points", calls.len()));
    // each undisturbed point equals the stand-alone solve without guess
    let standalone: Vec<Option<Vle>> = d0.states.iter().take(d0.states.len().saturating_sub(1)).map(|s| PhaseEquilibrium::pure(&eos, s.vapor().temperature, None, Default::default()).ok()).collect();
    for (i, (s, st)) in d0.states.iter().zip(standalone.iter()).enumerate() {
        if let Some(st) = st {
            rec.check("diagram_point=standalone", &format!("undisturbed|{i}"), vle_distance(s, st) / BAND, true, || format!("point {i} differs from the stand-alone solve by {:e}", vle_distance(s, st)));
        }
    }
    if d0.states.len() != np {
        rec.skip("undisturbed diagram is incomplete (C04's findings)");
        return;
    }
    // every non-empty subset of failed points
    let n = calls.len();
    let mut nplans = 0u64;
    for mask in 1u32..(1 << n) {
        let plan: Vec<(&'static str, usize)> = (0..n).filter(|k| mask & (1 << k) != 0).map(|k| ("pure.call", k)).collect();
        let (d, tr) = with_plan(&plan, || PhaseDiagram::pure(&eos, tmin, np, Some(tc), Default::default()));
        nplans += 1;
        let Ok(d) = d else {
            rec.require("history", &format!("mask={mask:b}|err"), false, || "diagram returns Err when points fail".into());
            continue;
        };
        let forced = tr.iter().filter(|s| s.2).count();
        if forced != plan.len() {
            rec.count("plan_not_fully_reached");
        }
        // exactly the forced points are missing ...
        let expect_len = np - plan.len();
        rec.require("history", &format!("mask={mask:b}|len"), d.states.len() == expect_len, || format!("forced failures {plan:?}: {} states instead of {expect_len}", d.states.len()));
        // ... and every surviving point equals the undisturbed point at that temperature
        let mut worst = 0.0f64;
        let mut all_found = true;
        for s in d.states.iter().take(d.states.len().saturating_sub(1)) {
            match d0.states.iter().find(|b| rel(b.vapor().temperature.to_reduced(), s.vapor().temperature.to_reduced()) < 1e-12) {
                Some(b) => worst = worst.max(vle_distance(s, b)),
                None => all_found = false,
            }
        }
        rec.require("history", &format!("mask={mask:b}|same_temperatures"), all_found, || "a surviving point is at a temperature that is not in the undisturbed diagram".into());
        rec.check("history", &format!("mask={mask:b}|points"), worst / BAND, true, || format!("with points {plan:?} failing a surviving point changes by {worst:e}"));
    }
    rec.count_n("failure_subsets", nplans);
    // nested numbers of points share temperatures: n and 2n-1
    let np2 = 2 * np - 1;
    if let Ok(d2) = PhaseDiagram::pure(&eos, tmin, np2, Some(tc), Default::default()) {
        for s in d0.states.iter().take(np - 1) {
            if let Some(b) = d2.states.iter().find(|b| rel(b.vapor().temperature.to_reduced(), s.vapor().temperature.to_reduced()) < 1e-12) {
                rec.check("nested_npoints", &format!("{np}->{np2}"), vle_distance(s, b) / BAND, true, || format!("the same temperature gives a different point in the {np2}-point diagram"));
            }
        }
    }
}

// ---------------------------------------------------------------------------------------
// mixtures

struct MCase {
    pair: Pair,
    tr: f64,
    x: f64,
}

fn mix_guess_case(c: &MCase, rec: &mut Rec) {
    let eos = &c.pair.eos;
    let t = Temperature::from_reduced(c.pair.tc_low() * c.tr);
    let xs = xvec(c.x);
    for bubble in [true, false] {
        let nm = if bubble { "bubble" } else { "dew" };
        let solve = |p: Option<Pressure>, y: Option<&ndarray::Array1<f64>>| if bubble { PhaseEquilibrium::bubble_point(eos, t, &xs, p, y, Default::default()) } else { PhaseEquilibrium::dew_point(eos, t, &xs, p, y, Default::default()) };
        let Ok(base) = solve(None, None) else {
            rec.skip("no bubble/dew point without guess");
            continue;
        };
        let p0 = base.vapor().pressure(Contributions::Total);
        let other = if bubble { base.vapor().molefracs.clone() } else { base.liquid().molefracs.clone() };
        // composition guesses within a factor 3 of the solution (the quantifier of the property): the first mole
        // fraction of the true incipient phase scaled by 1/3 and 3 (renormalised)
        let scaled = |f: f64| {
            let v = arr1(&[other[0] * f, other[1]]);
            &v / v.sum()
        };
        let (pure1, pure2) = (scaled(1.0 / 3.0), scaled(3.0));
        // close to the critical region a mixture has two dew (and bubble) points at one temperature: only guesses next to the
        // solution single out one of them
        let near_critical = c.tr > 0.95;
        for f in [1.0 / 3.0, 0.5, 0.9, 1.1, 2.0, 3.0] {
            for (yn, y) in [("none", None), ("true", Some(&other)), ("x/3", Some(&pure1)), ("3x", Some(&pure2)), ("feed", Some(&xs))] {
                if near_critical && (!(0.85..=1.15).contains(&f) || yn != "true") {
                    continue;
                }
                match solve(Some(p0 * f), y) {
                    Ok(g) => rec.check("bubble_dew_guess", &format!("{nm}|p_init={f:.3}|x_init={yn}"), vle_distance(&g, &base) / BAND, true, || format!("{nm} point with tp_init = {f:.3} p*, molefracs_init = {yn} differs by {:e}", vle_distance(&g, &base))),
                    Err(_) => rec.skip("bubble/dew with guess fails (conditional)"),
                }
            }
        }
        // composition guess alone
        for (yn, y) in [("true", &other), ("x/3", &pure1), ("3x", &pure2), ("feed", &xs)] {
            if near_critical && yn != "true" {
                continue;
            }
            if let Ok(g) = solve(None, Some(y)) {
                rec.check("bubble_dew_guess", &format!("{nm}|x_init={yn}"), vle_distance(&g, &base) / BAND, true, || format!("{nm} point with molefracs_init = {yn} differs by {:e}", vle_distance(&g, &base)));
            }
        }
    }
    // flash with an initial state from a neighbouring pressure / temperature (not next to the critical region, where the
    // vanishing difference between the phases amplifies the flash tolerance beyond the band)
    if c.tr > 0.95 {
        return;
    }
    if let (Ok(b), Ok(d)) = (PhaseEquilibrium::bubble_point(eos, t, &xs, None, None, Default::default()), PhaseEquilibrium::dew_point(eos, t, &xs, None, None, Default::default())) {
        let (pb, pd) = (b.vapor().pressure(Contributions::Total), d.vapor().pressure(Contributions::Total));
        if ((pb - pd) / pb).into_value() > 1e-2 {
            let feed = &xs * MOL;
            let p = pd + (pb - pd) * 0.5;
            if let Ok(base) = PhaseEquilibrium::tp_flash(eos, t, p, &feed, None, Default::default(), None) {
                for (gn, tg, pg) in [("p-", t, pd + (pb - pd) * 0.3), ("p+", t, pd + (pb - pd) * 0.7), ("T-", t * 0.98, p), ("bubble", t, pb), ("dew", t, pd)] {
                    let init = match gn {
                        "bubble" => Ok(b.clone()),
                        "dew" => Ok(d.clone()),
                        _ => PhaseEquilibrium::tp_flash(eos, tg, pg, &feed, None, Default::default(), None),
                    };
                    let Ok(init) = init else { continue };
                    match PhaseEquilibrium::tp_flash(eos, t, p, &feed, Some(&init), Default::default(), None) {
                        Ok(g) => {
                            // flash tolerance is 1e-8 in ln K: compare compositions and phase fractions
                            let d = vle_distance(&g, &base).max(rel(g.vapor().total_moles.to_reduced(), base.vapor().total_moles.to_reduced()));
                            rec.check("flash_guess", gn, d / 1e-6, true, || format!("tp_flash with initial state '{gn}' differs by {d:e}"));
                        }
                        Err(_) => rec.skip("flash with initial state fails (conditional)"),
                    }
                }
                // deviation: the given-initial-state attempt is forced to fail -> falls back to the stability start
                let (r, _) = with_plan(&[("tp_flash.given", 0)], || PhaseEquilibrium::tp_flash(eos, t, p, &feed, Some(&b), Default::default(), None));
                if let Ok(g) = r {
                    rec.check("flash_guess", "given_forced_to_fail", vle_distance(&g, &base) / 1e-6, true, || "flash result changes when the given-initial-state attempt fails".into());
                }
                let (r, tr) = with_plan(&[("tp_flash.first_start", 0)], || PhaseEquilibrium::tp_flash(eos, t, p, &feed, None, Default::default(), None));
                if tr.iter().any(|s| s.2) {
                    match r {
                        Ok(g) => rec.check("flash_guess", "first_start_forced_to_fail", vle_distance(&g, &base) / 1e-6, true, || "flash result changes when the first stability start fails".into()),
                        Err(_) => rec.skip("second stability start fails (conditional)"),
                    }
                }
            }
        }
        // deviation inside bubble/dew: ideal-gas start forced to fail -> spinodal start
        let (r, tr) = with_plan(&[("bubble_dew.ideal_gas", 0)], || PhaseEquilibrium::bubble_point(eos, t, &xs, None, None, Default::default()));
        if tr.iter().any(|s| s.2) {
            match r {
                Ok(g) => rec.check("bubble_dew_guess", "ideal_gas_start_forced_to_fail", vle_distance(&g, &b) / BAND, true, || format!("bubble point from the spinodal start differs by {:e}", vle_distance(&g, &b))),
                Err(_) => rec.skip("spinodal start fails (conditional)"),
            }
        }
    }
}

/// binary_vle / bubble_point_line / dew_point_line / lle with every subset of points forced to fail
fn mix_history_case(c: &(Pair, usize), rec: &mut Rec) {
    let (pair, np) = c;
    let eos = &pair.eos;
    let t = Temperature::from_reduced(pair.tc_low() * 0.8);
    let m = arr1(&[0.4, 0.6]) * MOL;
    type D = PhaseDiagram<feos::ResidualModel, 2>;
    let drivers: Vec<(&str, &'static str, Box<dyn Fn() -> Option<D>>)> = vec![
        ("binary_vle", "bubble_dew.call", Box::new(|| PhaseDiagram::binary_vle(eos, t, Some(*np), None, Default::default()).ok())),
        ("bubble_point_line", "bubble_dew.call", Box::new(|| PhaseDiagram::bubble_point_line(eos, &m, t * 0.8, *np, None, Default::default()).ok())),
        ("dew_point_line", "bubble_dew.call", Box::new(|| PhaseDiagram::dew_point_line(eos, &m, t * 0.8, *np, None, Default::default()).ok())),
    ];
    for (name, site, run) in drivers {
        let (d0, tr0) = with_plan(&[], || run());
        let Some(d0) = d0 else {
            rec.skip("diagram driver fails");
            continue;
        };
        let calls: Vec<usize> = tr0.iter().filter(|s| s.0 == site).map(|s| s.1).collect();
        let n = calls.len().min(8);
        let key_of = |s: &Vle| (s.liquid().molefracs[0], s.vapor().temperature.to_reduced(), s.vapor().molefracs[0]);
        let mut nplans = 0u64;
        for mask in 1u32..(1 << n) {
            let plan: Vec<(&'static str, usize)> = (0..n).filter(|k| mask & (1 << k) != 0).map(|k| (site, k)).collect();
            let (d, tr) = with_plan(&plan, || run());
            nplans += 1;
            let Some(d) = d else {
                rec.require("history", &format!("{name}|mask={mask:b}|err"), false, || "diagram returns Err when points fail".into());
                continue;
            };
            let forced = tr.iter().filter(|s| s.2).count();
            // every surviving point equals the undisturbed point with the same specification
            let mut worst = 0.0f64;
            let mut unmatched = 0;
            for s in &d.states {
                let k = key_of(s);
                let spec_match = |b: &&Vle| {
                    let kb = key_of(b);
                    match name {
                        "binary_vle" => (kb.0 - k.0).abs() < 1e-12,
                        "bubble_point_line" => rel(kb.1, k.1) < 1e-12,
                        _ => rel(kb.1, k.1) < 1e-9 || rel(b.vapor().pressure(Contributions::Total).to_reduced(), s.vapor().pressure(Contributions::Total).to_reduced()) < 1e-9,
                    }
                };
                match d0.states.iter().find(spec_match) {
                    Some(b) => worst = worst.max(vle_distance(s, b)),
                    None => unmatched += 1,
                }
            }
            rec.check("history", &format!("{name}|mask={mask:b}|points"), worst / 1e-6, true, || format!("{name}: with calls {plan:?} failing a surviving point changes by {worst:e}"));
            // the pressure part of dew_point_line derives its grid from the last converged temperature point, so
            // its specifications legitimately move when that point fails; elsewhere only forced points go missing
            if name != "dew_point_line" {
                rec.require("history", &format!("{name}|mask={mask:b}|len"), d.states.len() + forced >= d0.states.len() && unmatched == 0, || format!("{name}: {} states after {forced} forced failures, undisturbed {} ({unmatched} points without counterpart)", d.states.len(), d0.states.len()));
            }
        }
        rec.count_n("failure_subsets", nplans);
        // each undisturbed point of the temperature lines equals the stand-alone solve at its temperature - also with caller-supplied
        // (inner, outer) solver options that differ from each other: a loose inner pressure loop under the default outer tolerance must
        // not change any point, whether it was started cold or from its predecessor
        if name != "binary_vle" {
            use feos_core::SolverOptions;
            let loose_inner = (SolverOptions { tol: Some(1e-3), ..Default::default() }, SolverOptions::default());
            let many_inner = (SolverOptions { max_iter: Some(60), ..Default::default() }, SolverOptions { max_iter: Some(40), ..Default::default() });
            for (on, opts) in [("default", Default::default()), ("loose_inner", loose_inner), ("max_iter_60_40", many_inner)] {
                let line = if name == "bubble_point_line" { PhaseDiagram::bubble_point_line(eos, &m, t * 0.8, *np, None, opts) } else { PhaseDiagram::dew_point_line(eos, &m, t * 0.8, *np, None, opts) };
                let Ok(line) = line else {
                    rec.skip("temperature line with non-default options fails (conditional)");
                    continue;
                };
                let x = (&m / m.sum()).into_value();
                for (i, s) in line.states.iter().enumerate() {
                    let ti = s.vapor().temperature;
                    let st = if name == "bubble_point_line" { PhaseEquilibrium::bubble_point(eos, ti, &x, None, None, opts) } else { PhaseEquilibrium::dew_point(eos, ti, &x, None, None, opts) };
                    // the pressure part of dew_point_line is specified by pressure: compare at the point's pressure instead
                    let st = match (st, name) {
                        (Ok(st), _) if rel(st.vapor().pressure(Contributions::Total).to_reduced(), s.vapor().pressure(Contributions::Total).to_reduced()) < 1e-3 => Ok(st),
                        (_, "dew_point_line") => PhaseEquilibrium::dew_point(eos, s.vapor().pressure(Contributions::Total), &x, Some(ti), None, opts),
                        (r, _) => r,
                    };
                    if let Ok(st) = st {
                        let d = vle_distance(s, &st);
                        // a cold start next to the critical end of the line can land on the other branch (recorded C12 findings of the
                        // guess lattice); that is a different solution, not a perturbed one, and is counted instead of compared
                        if d > 1e-2 {
                            rec.count("standalone_solve_on_another_branch");
                            continue;
                        }
                        rec.check("diagram_point=standalone", &format!("{name}|{on}|{i}"), d / 1e-6, true, || format!("{name} ({on} options) point {i} differs from the stand-alone point with the same options by {d:e}"));
                    }
                }
            }
        }
        // each undisturbed interior point equals the stand-alone solve without any guess
        if name == "binary_vle" {
            for (i, s) in d0.states.iter().enumerate() {
                let x = s.liquid().molefracs.clone();
                if x[0] <= 0.0 || x[0] >= 1.0 {
                    continue;
                }
                if let Ok(st) = PhaseEquilibrium::bubble_point(eos, t, &x, None, None, Default::default()) {
                    rec.check("diagram_point=standalone", &format!("binary_vle|{i}"), vle_distance(s, &st) / 1e-6, true, || format!("binary_vle point {i} differs from the stand-alone bubble point by {:e}", vle_distance(s, &st)));
                }
            }
        }
    }
}

pub fn run(ctx: &mut Ctx) {
    ctx.level = "fault_enumeration";
    let tier = ctx.tier;
    let pures = pure_cases();
    let gs = ["pcsaft/gross2001.json", "pcsaft/gross2002.json", "pcsaft/gross2006.json", "pcsaft/gross2005_fit.json", "saftvrmie/lafitte2013.json"];
    let mut g1 = vec![];
    let mut h1 = vec![];
    let mut k = 0;
    for (i, c) in pures.iter().enumerate() {
        if c.vle_excepted || !(gs.contains(&c.file.as_str()) || i % 40 == 0) {
            continue;
        }
        k += 1;
        if tier == Tier::Quick && k % 5 != 0 {
            continue;
        }
        for tr in tier.pick(vec![0.6, 0.85], vec![0.5, 0.6, 0.7, 0.8, 0.9, 0.97]) {
            g1.push((i, tr));
        }
        for np in tier.pick(vec![6], vec![4, 6, 9]) {
            if tier == Tier::Thorough && np == 9 && k % 3 != 0 {
                continue;
            }
            h1.push((i, np));
        }
    }
    ctx.run(&g1, |c| format!("pure_guess|{}|{}|Tr={}", pures[c.0].file, pures[c.0].name, c.1), |c, rec| pure_guess_case(&pures, c, rec));
    ctx.run(&h1, |c| format!("pure_history|{}|{}|n={}", pures[c.0].file, pures[c.0].name, c.1), |c, rec| pure_history_case(&pures, c, rec));
    let ps = pairs(tier, 1.5);
    let mut mc = vec![];
    for (j, p) in ps.iter().enumerate() {
        if tier == Tier::Thorough && j % 3 != 0 {
            continue;
        }
        // (0.97 and 0.99 of the lower critical temperature: the ideal-gas start of the bubble/dew solvers fails there and the
        // spinodal fallback is taken)
        for tr in TRS.into_iter().chain([0.97, 0.99]) {
            for x in [0.05, 0.5, 0.95] {
                mc.push(MCase { pair: p.clone(), tr, x });
            }
        }
    }
    ctx.run(&mc, |c| format!("mix_guess|{}|Tr={}|x={}", c.pair.id, c.tr, c.x), mix_guess_case);
    let mut mh = vec![];
    for (j, p) in ps.iter().enumerate() {
        if j % tier.pick(10, 12) == 0 {
            for np in tier.pick(vec![6], vec![5, 8]) {
                mh.push((p.clone(), np));
            }
        }
    }
    ctx.run(&mh, |c| format!("mix_history|{}|n={}", c.0.id, c.1), mix_history_case);
    ctx.extra("pure_records", json!(g1.len()));
    ctx.rule = "E1 guess lattice: pure VLE with the equilibrium at T x {0.7,0.9,1.1,1.3} as initial state (T and p specification), two phases at the requested T and {0.8,0.95,1.05} p_sat, coarse-tolerance solutions {1e-3,1e-6} to be refined; bubble/dew points with tp_init in p* x {1/3,1/2,0.9,1.1,2,3} x molefracs_init in {none, true, true with x_1 scaled by 1/3 and 3, specified composition}; flashes with initial states from neighbouring p, T and from the bubble/dew point; H3 deviations: given-initial-state attempt / first stability start / ideal-gas start forced to fail. E2 history: PhaseDiagram::pure (n in {4,6,9}), binary_vle, bubble_point_line, dew_point_line (n in {5,6,8}) re-run with EVERY non-empty subset of their solver calls forced to fail (2^(n-1)-1 plans each): exactly the forced points go missing and every surviving point equals the undisturbed one; every undisturbed point equals the stand-alone solve without guess. E3 nested numbers of points n and 2n-1 share temperatures and points. Band 1e-7 relative in p, T, densities, absolute in mole fractions (1e-6 for flashes and mixture diagrams). distinct_nontrivial = distinct (system, guess / failure subset) keys".into();
    ctx.assume("vapor-liquid systems without liquid-liquid demixing (hydrocarbon pairs, Gross-Sadowski and SAFT-VR Mie pure records); guesses within a factor 3");
}
