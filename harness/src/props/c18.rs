//! C18 — a solved density profile is a stationary point and meets its specification
//!
//! all solver chains up to depth 3 over {picard, picard-log, anderson, anderson-log, newton, newton-log}
use crate::engine::{Ctx, Rec, Tier};
use crate::zoo;
use feos::pcsaft::PcSaftFunctional;
use feos::ResidualModel;
use feos_core::{Components, Contributions, DensityInitialization, PhaseEquilibrium, ReferenceSystem, State};
use feos_dft::adsorption::{ExternalPotential, Pore1D, PoreSpecification};
use feos_dft::interface::PlanarInterface;
use feos_dft::{DFTSolver, DFTSpecifications, Geometry};
use ndarray::{arr1, Array1};
use quantity::*;
use serde_json::json;
use std::sync::Arc;

type F = Arc<ResidualModel>;
const NAMES: [&str; 6] = ["picard", "picard-log", "anderson", "anderson-log", "newton", "newton-log"];

/// letters 0..5: a stage with its default iteration limit; 6..11: the same stage cut off after 3 iterations
fn stage(s: DFTSolver, k: usize, tol: f64) -> DFTSolver {
    let it = if k >= 6 { Some(3) } else { None };
    match k % 6 {
        0 => s.picard_iteration(Some(false), it, Some(tol), None),
        1 => s.picard_iteration(Some(true), it, Some(tol), None),
        2 => s.anderson_mixing(Some(false), it, Some(tol), None, None),
        3 => s.anderson_mixing(Some(true), it, Some(tol), None, None),
        4 => s.newton(Some(false), it, None, Some(tol)),
        _ => s.newton(Some(true), it, None, Some(tol)),
    }
}
fn chains(depth: usize) -> Vec<Vec<usize>> {
    let mut out: Vec<Vec<usize>> = vec![];
    let mut cur: Vec<Vec<usize>> = (0..6).map(|a| vec![a]).collect();
    for _ in 0..depth {
        out.extend(cur.iter().cloned());
        cur = cur.iter().flat_map(|c| (0..6).map(move |a| [c.clone(), vec![a]].concat())).collect();
    }
    // a loose stage that converges followed by a tight stage that is cut off: success of an earlier stage must not be
    // reported as success of the chain (both tiers)
    for a in [1, 3, 5] {
        for b in 6..12 {
            out.push(vec![a, b]);
        }
    }
    out
}
fn solver_of(ch: &[usize], tol: f64) -> DFTSolver {
    let mut s = DFTSolver::new(None);
    for (i, &k) in ch.iter().enumerate() {
        s = stage(s, k, if i + 1 == ch.len() { tol } else { 1e-4 });
    }
    s
}
fn chain_name(ch: &[usize]) -> String {
    ch.iter().map(|&k| if k >= 6 { format!("{}[3it]", NAMES[k % 6]) } else { NAMES[k].to_string() }).collect::<Vec<_>>().join(">")
}

#[derive(Clone)]
struct Sys {
    id: String,
    eos: F,
    tr: f64,
    kind: &'static str, // planar | pore:<geometry>
    depth: usize,
    n_grid: usize,
}

/// invariants of one successful solve
fn check_profile<D>(rec: &mut Rec, sub: &str, prof: &feos_dft::DFTProfile<D, ResidualModel>, tol: f64)
where
    D: ndarray::Dimension,
    D::Larger: ndarray::Dimension<Smaller = D>,
    <D::Larger as ndarray::Dimension>::Larger: ndarray::Dimension<Smaller = D::Larger>,
{
    match prof.residual(false) {
        Ok((_, _, norm)) => rec.check("residual_below_tolerance", sub, norm / (10.0 * tol), true, || format!("solve reported success but the recomputed Euler-Lagrange residual is {norm:e} (tolerance {tol:e})")),
        Err(e) => rec.require("residual_below_tolerance", sub, false, || format!("residual cannot be evaluated: {e}")),
    }
    let rho = prof.density.to_reduced();
    let ok = rho.iter().all(|v| v.is_finite() && *v >= 0.0);
    rec.require("density_positive_finite", sub, ok, || "density has negative or non-finite entries".into());
    if let Some(log) = &prof.solver_log {
        let r = log.residual();
        if let Some(last) = r.iter().last() {
            rec.check("log_converged", sub, last / tol, true, || format!("debug=false returned Ok although the last logged residual is {last:e} > {tol:e}"));
        }
    }
}

fn planar(sys: &Sys, rec: &mut Rec) {
    let eos = &sys.eos;
    let Ok(cp) = State::critical_point(eos, None, None, Default::default()) else { return };
    let tc = cp.temperature;
    let Ok(vle) = PhaseEquilibrium::pure(eos, tc * sys.tr, None, Default::default()) else { return };
    let l = 100.0 * ANGSTROM;
    let mut gammas: Vec<(f64, String, f64)> = vec![];
    let mut prev: Option<PlanarInterface<ResidualModel>> = None;
    for ch in chains(sys.depth) {
        for tol in [1e-8, 1e-11] {
            let name = format!("{}|tol={tol:e}", chain_name(&ch));
            let solver = solver_of(&ch, tol);
            for init in ["tanh", "pdgt", "previous"] {
                // pDGT and previous-solution starts only for single-stage chains (keeps the product affordable)
                if init != "tanh" && ch.len() > 1 {
                    continue;
                }
                let start = match init {
                    "tanh" => Some(PlanarInterface::from_tanh(&vle, sys.n_grid, l, tc, false)),
                    // pDGT initialisation exists for single-segment pure fluids only (it panics otherwise, by design)
                    "pdgt" => {
                        use feos_dft::HelmholtzEnergyFunctional;
                        if eos.component_index().len() == 1 {
                            PlanarInterface::from_pdgt(&vle, sys.n_grid, false).ok()
                        } else {
                            None
                        }
                    }
                    _ => prev.clone(),
                };
                let Some(start) = start else {
                    rec.skip("initial profile not available");
                    continue;
                };
                let bulk_rho = start.profile.bulk.density;
                match start.solve(Some(&solver)) {
                    Ok(pi) => {
                        let sub = format!("{name}|{init}");
                        check_profile(rec, &sub, &pi.profile, tol);
                        let db = ((pi.profile.bulk.density - bulk_rho) / bulk_rho).into_value().abs();
                        rec.check("bulk_unchanged", &sub, db / 1e-10, true, || format!("default specification changed the bulk density by {db:e}"));
                        let g = pi.surface_tension.unwrap().to_reduced();
                        rec.require("surface_tension_positive", &sub, g > 0.0 && g.is_finite(), || format!("surface tension {g:e}"));
                        // the box of the pDGT start has another length: its surface tension is compared separately
                        if init != "pdgt" {
                            gammas.push((g, sub.clone(), tol));
                        } else if let Some((g0, _, _)) = gammas.first() {
                            // the pDGT start chooses its own box length: finite-size effects (2e-4 at 0.95 Tc in 100 A) are C19's subject
                            rec.check("path_independent_observable", &format!("{sub}|box"), ((g - g0) / g0).abs() / 2e-3, true, || format!("surface tension from the pDGT start {g:e} vs {g0:e}"));
                        }
                        if prev.is_none() {
                            prev = Some(pi);
                        }
                    }
                    Err(_) => rec.skip("solver chain reports NotConverged (conditional)"),
                }
            }
        }
    }
    // observables that do not depend on the iteration path agree between all successful chains; the reference is the
    // first chain converged to the tight tolerance, the band follows the tolerance of the chain (observed spread on the
    // pinned tree: 2e-8 at 1e-11, 1e-5 at 1e-8)
    let reference = gammas.iter().find(|g| g.2 < 1e-10).or(gammas.first()).cloned();
    if let Some((g0, n0, _)) = reference {
        for (g, n, tol) in &gammas {
            let band = if *tol < 1e-10 { 1e-6 } else { 1e-3 };
            rec.check("path_independent_observable", n, ((g - g0) / g0).abs() / band, true, || format!("surface tension {g:e} ({n}) vs {g0:e} ({n0})"));
        }
    }
    rec.count_n("successful_chains", gammas.len() as u64);
    // particle-number specifications
    for spec in ["total_moles", "moles"] {
        let mut pi = PlanarInterface::from_tanh(&vle, sys.n_grid, l, tc, spec == "total_moles");
        if spec == "moles" {
            pi.profile.specification = DFTSpecifications::moles_from_profile(&pi.profile);
        }
        let n0 = pi.profile.moles().to_reduced();
        match pi.solve_inplace(None, false) {
            Ok(()) => {
                rec.count(&format!("spec_{spec}_converged"));
                check_profile(rec, spec, &pi.profile, 1e-11);
                let n = pi.profile.moles().to_reduced();
                let e = if spec == "moles" { (&n - &n0).iter().zip(n0.iter()).map(|(d, n)| (d / n).abs()).fold(0.0, f64::max) } else { ((n.sum() - n0.sum()) / n0.sum()).abs() };
                rec.check("specified_particle_number", spec, e / 1e-8, true, || format!("specified {n0}, profile contains {n}"));
                if let Some(g) = pi.surface_tension {
                    if let Some((g0, _, _)) = gammas.iter().find(|g| g.2 < 1e-10) {
                        // a fixed particle number pins the interface position, which matters in a finite box (1e-4 at 0.95 Tc)
                        rec.check("path_independent_observable", spec, ((g.to_reduced() - g0) / g0).abs() / 2e-3, true, || format!("surface tension with {spec} specification {:e} vs {g0:e}", g.to_reduced()));
                    }
                }
            }
            Err(_) => {
                rec.count(&format!("spec_{spec}_not_converged"));
                rec.skip("particle-number specification does not converge (conditional)");
            }
        }
    }
}

fn pore(sys: &Sys, rec: &mut Rec) {
    let eos = &sys.eos;
    let geo = match sys.kind {
        "pore:slit" => Geometry::Cartesian,
        "pore:cylinder" => Geometry::Cylindrical,
        _ => Geometry::Spherical,
    };
    let Ok(cp) = State::critical_point(eos, None, None, Default::default()) else { return };
    let t = cp.temperature * sys.tr;
    let Ok(vle) = PhaseEquilibrium::pure(eos, t, None, Default::default()) else { return };
    let p = vle.vapor().pressure(Contributions::Total) * 0.3;
    let Ok(bulk) = State::new_npt(eos, t, p, &(arr1(&[1.0]) * MOL), DensityInitialization::Vapor) else { return };
    let pore = Pore1D::new(geo, 20.0 * ANGSTROM, ExternalPotential::LJ93 { sigma_ss: 3.0, epsilon_k_ss: 100.0, rho_s: 0.08 }, Some(sys.n_grid), None);
    let mut obs: Vec<(f64, f64, String, f64)> = vec![];
    for ch in chains(sys.depth) {
        for tol in [1e-8, 1e-11] {
            let name = format!("{}|tol={tol:e}", chain_name(&ch));
            let solver = solver_of(&ch, tol);
            let Ok(start) = pore.initialize(&bulk, None, None) else { continue };
            match start.solve(Some(&solver)) {
                Ok(pp) => {
                    check_profile(rec, &name, &pp.profile, tol);
                    let db = ((pp.profile.bulk.density - bulk.density) / bulk.density).into_value().abs();
                    rec.check("bulk_unchanged", &name, db / 1e-10, true, || format!("default specification changed the bulk density by {db:e}"));
                    let n = pp.profile.moles().to_reduced()[0];
                    let om = pp.grand_potential.unwrap().to_reduced();
                    obs.push((n, om, name, tol));
                }
                Err(_) => rec.skip("solver chain reports NotConverged (conditional)"),
            }
        }
    }
    if let Some((n0, o0, nm0, _)) = obs.iter().find(|o| o.3 < 1e-10).or(obs.first()).cloned() {
        for (n, o, nm, tol) in &obs {
            let band = if *tol < 1e-10 { 1e-6 } else { 1e-3 };
            rec.check("path_independent_observable", &format!("{nm}|adsorbed_amount"), ((n - n0) / n0).abs() / band, true, || format!("adsorbed amount {n:e} ({nm}) vs {n0:e} ({nm0})"));
            rec.check("path_independent_observable", &format!("{nm}|grand_potential"), ((o - o0) / o0).abs() / band, true, || format!("grand potential {o:e} ({nm}) vs {o0:e} ({nm0})"));
        }
    }
    rec.count_n("successful_chains", obs.len() as u64);
    // particle-number specification: keep the adsorbed amount of the initial profile
    if let Ok(mut pp) = pore.initialize(&bulk, None, None) {
        pp.profile.specification = DFTSpecifications::moles_from_profile(&pp.profile);
        let n0 = pp.profile.moles().to_reduced()[0];
        match pp.solve_inplace(None, false) {
            Ok(()) => {
                rec.count("spec_moles_converged");
                check_profile(rec, "moles", &pp.profile, 1e-11);
                let n = pp.profile.moles().to_reduced()[0];
                rec.check("specified_particle_number", "moles", ((n - n0) / n0).abs() / 1e-8, true, || format!("specified {n0:e}, profile contains {n:e}"));
            }
            Err(_) => {
                rec.count("spec_moles_not_converged");
                rec.skip("particle-number specification does not converge (conditional)");
            }
        }
    }
}

/// particle-number specifications for a mixture or a heterosegmented molecule in a slit pore: the grand-canonical solution
/// fixes N0; the profile is then re-solved with Moles / TotalMoles set to N0 and to 1.1 N0 with a long, strongly damped
/// Anderson chain (the default solver does not converge for these)
fn spec(sys: &Sys, rec: &mut Rec) {
    let eos = &sys.eos;
    let nc = eos.components();
    let x = if nc == 1 { arr1(&[1.0]) } else { arr1(&[0.6, 0.4]) };
    let Ok(cp) = State::critical_point(eos, Some(&(x.clone() * MOL)), None, Default::default()) else { return };
    let t = cp.temperature * sys.tr;
    let p = cp.pressure(Contributions::Total) * 0.02;
    let Ok(bulk) = State::new_npt(eos, t, p, &(x.clone() * MOL), DensityInitialization::Vapor) else { return };
    let pore = Pore1D::new(Geometry::Cartesian, 20.0 * ANGSTROM, ExternalPotential::LJ93 { sigma_ss: 3.0, epsilon_k_ss: 100.0, rho_s: 0.08 }, Some(sys.n_grid), None);
    let Ok(gc) = pore.initialize(&bulk, None, None).and_then(|p| p.solve(None)) else {
        rec.skip("grand-canonical reference does not converge (conditional)");
        return;
    };
    let n0 = gc.profile.moles().to_reduced();
    let solver = DFTSolver::new(None).anderson_mixing(Some(true), Some(50), Some(1e-5), None, None).anderson_mixing(Some(false), Some(1500), Some(1e-11), Some(0.05), Some(20));
    // per-component factors: equal scaling, and (for mixtures) a changed ratio that forces another bulk composition
    let factor_sets: Vec<(f64, Vec<f64>)> = if n0.len() > 1 { vec![(1.0, vec![1.0; n0.len()]), (1.1, vec![1.1; n0.len()]), (1.05, vec![1.1, 0.95]), (1.06, vec![0.95, 1.1])] } else { vec![(1.0, vec![1.0]), (1.1, vec![1.1])] };
    for (f, fs) in factor_sets {
        for kind in ["moles", "total_moles"] {
            let uniform = fs.iter().all(|v| *v == fs[0]);
            if kind == "total_moles" && !uniform {
                continue;
            }
            let target: Array1<f64> = n0.iter().zip(fs.iter()).map(|(n, f)| n * f).collect();
            let mut pp = gc.clone();
            pp.profile.specification = Arc::new(if kind == "moles" { DFTSpecifications::Moles { moles: target.clone() } } else { DFTSpecifications::TotalMoles { total_moles: n0.sum() * f } });
            let sub = if uniform { format!("{kind}|{f}N0") } else { format!("{kind}|{fs:?}N0") };
            match pp.solve_inplace(Some(&solver), false) {
                Ok(()) => {
                    rec.count(&format!("spec_{kind}_converged"));
                    check_profile(rec, &sub, &pp.profile, 1e-11);
                    let n = pp.profile.moles().to_reduced();
                    let e = if kind == "moles" { (&n - &target).iter().zip(target.iter()).map(|(d, n)| (d / n).abs()).fold(0.0, f64::max) } else { ((n.sum() - n0.sum() * f) / (n0.sum() * f)).abs() };
                    // the returned bulk state is the one the profile is in equilibrium with: solving again at that bulk with the
                    // default (chemical potential) specification must leave the profile where it is
                    let mut again = pp.clone();
                    again.profile.specification = Arc::new(DFTSpecifications::ChemicalPotential);
                    let again_result = again.solve_inplace(Some(&solver), false);
                    if again_result.is_err() {
                        rec.count("re-solve at the returned bulk does not converge");
                    }
                    if again_result.is_ok() {
                        let n2 = again.profile.moles().to_reduced();
                        let d = (&n2 - &n).iter().zip(n.iter()).map(|(d, n)| (d / n).abs()).fold(0.0, f64::max);
                        rec.check("returned_bulk_is_equilibrium_bulk", &sub, d / 1e-5, true, || format!("re-solving at the returned bulk state moves the particle numbers from {n} to {n2} (bulk mole fractions {})", pp.profile.bulk.molefracs));
                    }
                    // the residual tolerance (1e-11 in reduced density, densities ~1e-4) bounds the particle number only up to the
                    // conditioning of the strongly damped fixed-point map: 6e-6 observed on the pinned tree for 1.1 N0
                    rec.check("specified_particle_number", &sub, e / 1e-4, true, || format!("specified {} x {f}, profile contains {n}", n0));
                    if f == 1.0 && uniform {
                        // the grand-canonical profile already has N0 particles: it must be reproduced
                        let d = ((&pp.profile.density.to_reduced() - &gc.profile.density.to_reduced()).mapv(f64::abs).sum() / gc.profile.density.to_reduced().sum()).abs();
                        rec.check("path_independent_observable", &format!("{sub}|profile"), d / 1e-6, true, || format!("profile with the particle number of the grand-canonical solution differs from it by {d:e} (relative l1)"));
                    }
                }
                Err(_) => {
                    rec.count(&format!("spec_{kind}_not_converged"));
                    rec.skip("particle-number specification does not converge (conditional)");
                }
            }
        }
    }
}

fn case(sys: &Sys, rec: &mut Rec) {
    if sys.kind == "planar" {
        planar(sys, rec)
    } else if sys.kind == "spec" {
        spec(sys, rec)
    } else {
        pore(sys, rec)
    }
    rec.sample(json!({"system": sys.id, "kind": sys.kind, "Tr": sys.tr, "chains": chains(sys.depth).len()}));
}

pub fn run(ctx: &mut Ctx) {
    let tier = ctx.tier;
    let propane: F = Arc::new(ResidualModel::PcSaftFunctional(PcSaftFunctional::new(zoo::pcsaft_params(&[(&["propane"], "gross2001")]))));
    let methane: F = Arc::new(ResidualModel::PcSaftFunctional(PcSaftFunctional::new(zoo::pcsaft_params(&[(&["methane"], "gross2001")]))));
    let water: F = Arc::new(ResidualModel::PcSaftFunctional(PcSaftFunctional::new(zoo::pcsaft_params(&[(&["water"], "gross2002")]))));
    let hexane_gc: F = Arc::new(ResidualModel::GcPcSaftFunctional(zoo::gc_func(&["hexane"])));
    let mut systems = vec![];
    let d = tier.pick(2, 3);
    systems.push(Sys { id: "pcsaft:propane".into(), eos: propane.clone(), tr: 0.8, kind: "planar", depth: d, n_grid: 512 });
    systems.push(Sys { id: "pcsaft:methane".into(), eos: methane.clone(), tr: 0.9, kind: "pore:slit", depth: d, n_grid: 256 });
    let binary: F = Arc::new(ResidualModel::PcSaftFunctional(PcSaftFunctional::new(zoo::pcsaft_params(&[(&["butane", "pentane"], "gross2001")]))));
    systems.push(Sys { id: "pcsaft:butane+pentane".into(), eos: binary.clone(), tr: 1.05, kind: "spec", depth: 0, n_grid: 256 });
    systems.push(Sys { id: "gcpcsaft:hexane".into(), eos: hexane_gc.clone(), tr: 1.05, kind: "spec", depth: 0, n_grid: 256 });
    if tier == Tier::Quick {
        // the remaining systems of the thorough tier with single-stage chains (they run in parallel)
        systems.push(Sys { id: "pcsaft:propane".into(), eos: propane.clone(), tr: 0.6, kind: "planar", depth: 1, n_grid: 512 });
        systems.push(Sys { id: "pcsaft:propane".into(), eos: propane.clone(), tr: 0.95, kind: "planar", depth: 1, n_grid: 512 });
        systems.push(Sys { id: "pcsaft:water".into(), eos: water.clone(), tr: 0.7, kind: "planar", depth: 1, n_grid: 512 });
        systems.push(Sys { id: "gcpcsaft:hexane".into(), eos: hexane_gc.clone(), tr: 0.75, kind: "planar", depth: 1, n_grid: 512 });
        systems.push(Sys { id: "pcsaft:methane".into(), eos: methane.clone(), tr: 0.9, kind: "pore:cylinder", depth: 1, n_grid: 256 });
        systems.push(Sys { id: "pcsaft:methane".into(), eos: methane.clone(), tr: 0.9, kind: "pore:sphere", depth: 1, n_grid: 256 });
    }
    if tier == Tier::Thorough {
        systems.push(Sys { id: "pcsaft:butane+pentane".into(), eos: binary, tr: 0.9, kind: "spec", depth: 0, n_grid: 512 });
        systems.push(Sys { id: "pcsaft:propane".into(), eos: propane.clone(), tr: 0.6, kind: "planar", depth: 3, n_grid: 512 });
        systems.push(Sys { id: "pcsaft:propane".into(), eos: propane.clone(), tr: 0.95, kind: "planar", depth: 3, n_grid: 512 });
        systems.push(Sys { id: "pcsaft:water".into(), eos: water, tr: 0.7, kind: "planar", depth: 2, n_grid: 512 });
        systems.push(Sys { id: "gcpcsaft:hexane".into(), eos: hexane_gc, tr: 0.75, kind: "planar", depth: 2, n_grid: 512 });
        systems.push(Sys { id: "pcsaft:methane".into(), eos: methane.clone(), tr: 0.9, kind: "pore:cylinder", depth: 2, n_grid: 256 });
        systems.push(Sys { id: "pcsaft:methane".into(), eos: methane, tr: 0.9, kind: "pore:sphere", depth: 2, n_grid: 256 });
    }
    ctx.run(&systems, |s| format!("{}|{}|Tr={}", s.id, s.kind, s.tr), case);
    ctx.rule = format!("ALL solver chains of length 1..{} over the 6-letter alphabet {{picard, picard-log, anderson, anderson-log, newton, newton-log}} ({} chains, incl. 18 two-stage chains whose tight last stage is cut off after 3 iterations) x final tolerance {{1e-8, 1e-11}} x systems (planar interfaces of PC-SAFT propane at several T_r, water, a gc-PC-SAFT chain; LJ93 slit / cylindrical / spherical pores at sub-saturation) x initial profile {{tanh, pDGT, previous solution}} (single-stage chains) x specification {{ChemicalPotential, Moles, TotalMoles}}; whenever solve reports success: recomputed Euler-Lagrange residual < 10 x tolerance, density non-negative and finite, last logged residual below the tolerance, bulk unchanged for the default specification, surface tension / adsorbed amount / grand potential equal across all successful chains (1e-6), specified particle numbers reproduced (1e-8)", d, chains(d).len());
    ctx.assume("chains up to the stated depth; systems as listed");
}
