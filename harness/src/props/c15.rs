//! C15 — every shipped parameter record loads and yields a physically usable model (exhaustive)
use crate::engine::{Ctx, Rec};
use crate::zoo::pfile;
use feos::epcsaft::{ElectrolytePcSaftBinaryRecord, ElectrolytePcSaftRecord};
use feos::gc_pcsaft::{GcPcSaftEosParameters, GcPcSaftFunctionalParameters, GcPcSaftRecord};
use feos::ideal_gas::{DipprRecord, Joback, JobackRecord};
use feos::pcsaft::{PcSaft, PcSaftBinaryRecord, PcSaftParameters, PcSaftRecord};
use feos::saftvrmie::{SaftVRMie, SaftVRMieParameters, SaftVRMieRecord};
use feos::saftvrqmie::{SaftVRQMie, SaftVRQMieBinaryRecord, SaftVRQMieParameters, SaftVRQMieRecord};
use feos::ResidualModel;
use feos_core::parameter::{BinaryRecord, ChemicalRecord, Identifier, IdentifierOption, Parameter, ParameterHetero, PureRecord, SegmentRecord};
use feos_core::{Contributions, PhaseEquilibrium, ReferenceSystem, State};
use quantity::Temperature;
use serde::de::DeserializeOwned;
use serde_json::{json, Value};
use std::collections::{BTreeMap, BTreeSet};
use std::sync::Arc;

pub const PCSAFT_PURE: [&str; 9] = ["esper2023", "gross2001", "gross2002", "gross2005_fit", "gross2005_literature", "gross2006", "loetgeringlin2018", "rehner2020", "eller2022"];

fn load<T: DeserializeOwned>(rel: &str) -> Result<Vec<T>, String> {
    let f = std::fs::File::open(pfile(rel)).map_err(|e| e.to_string())?;
    serde_json::from_reader(f).map_err(|e| e.to_string())
}
fn load_value(rel: &str) -> Vec<Value> {
    serde_json::from_reader(std::fs::File::open(pfile(rel)).unwrap()).unwrap()
}

/// one "file job": parse with the record type of its model + structural checks on the raw JSON
enum FileKind {
    Pure(fn(&str) -> Result<usize, String>),
    Binary(fn(&str) -> Result<usize, String>, Vec<&'static str>),
    Segment(fn(&str) -> Result<usize, String>),
    SegmentBinary(&'static str),
    Chemical,
    StructureOnly,
}

fn n_of<T: DeserializeOwned>(rel: &str) -> Result<usize, String> {
    load::<T>(rel).map(|v| v.len())
}

fn id_strings(id: &Value) -> Vec<(String, String)> {
    let mut v = vec![];
    if let Some(o) = id.as_object() {
        for k in ["cas", "name", "iupac_name", "smiles", "inchi", "formula"] {
            if let Some(s) = o.get(k).and_then(|s| s.as_str()) {
                v.push((k.to_string(), s.to_string()));
            }
        }
    }
    v
}

fn file_case(c: &(String, FileKind), rec: &mut Rec) {
    let (rel, kind) = c;
    let raw = load_value(rel);
    rec.count_n("records", raw.len() as u64);
    match kind {
        FileKind::Pure(parse) | FileKind::Segment(parse) => {
            let r = parse(rel);
            rec.require("parses", rel, r.as_ref().map(|n| *n == raw.len()).unwrap_or(false), || format!("{rel}: {r:?} (raw records {})", raw.len()));
            // duplicates among lookup identifiers (name and cas are the kinds used in the documentation / tests)
            let is_segment = matches!(kind, FileKind::Segment(_));
            let mut seen: BTreeMap<(String, String), usize> = BTreeMap::new();
            for (k, r) in raw.iter().enumerate() {
                let ids: Vec<(String, String)> = if is_segment { vec![("identifier".to_string(), r["identifier"].as_str().unwrap_or("").to_string())] } else { id_strings(&r["identifier"]).into_iter().filter(|(k, _)| k == "name").collect() };
                // lookup kind: the substance name (all documented lookups use IdentifierOption::Name; several files
                // deliberately hold different parameterisations of one CAS number, e.g. hydrogen / para-hydrogen)
                rec.require("has_identifier", &format!("{rel}#{k}"), !ids.is_empty(), || format!("{rel} record {k} has no name identifier"));
                for id in ids {
                    if let Some(prev) = seen.insert(id.clone(), k) {
                        rec.require("no_duplicate_identifier", &format!("{rel}|{}={}", id.0, id.1), false, || format!("{rel}: records {prev} and {k} share {} = {}", id.0, id.1));
                    } else {
                        rec.require("no_duplicate_identifier", &format!("{rel}|{}={}", id.0, id.1), true, String::new);
                    }
                }
                // positivity
                let mr = &r["model_record"];
                let is_ideal = rel.starts_with("ideal_gas");
                let mw = r["molarweight"].as_f64();
                if !is_ideal || mw.is_some() {
                    rec.require("positive", &format!("{rel}#{k}|molarweight"), mw.map(|m| m > 0.0).unwrap_or(false), || format!("{rel} record {k}: molarweight = {mw:?}"));
                }
                // group-contribution increments may legitimately be negative (>C< in sauer2014): only records of
                // whole substances are required to be positive
                if !is_ideal && !is_segment {
                    for key in ["m", "sigma", "epsilon_k"] {
                        let v = mr[key].as_f64();
                        rec.require("positive", &format!("{rel}#{k}|{key}"), v.map(|m| m > 0.0 && m.is_finite()).unwrap_or(false), || format!("{rel} record {k}: {key} = {v:?}"));
                    }
                }
            }
        }
        FileKind::Binary(parse, pure_files) => {
            let r = parse(rel);
            rec.require("parses", rel, r.as_ref().map(|n| *n == raw.len()).unwrap_or(false), || format!("{rel}: {r:?}"));
            // referential integrity: both identifiers exist in the accompanying collection
            let mut known: BTreeSet<(String, String)> = BTreeSet::new();
            for pf in pure_files {
                for r in load_value(pf) {
                    known.extend(id_strings(&r["identifier"]));
                }
            }
            let mut pairs: BTreeSet<(String, String)> = BTreeSet::new();
            for (k, r) in raw.iter().enumerate() {
                for side in ["id1", "id2"] {
                    let ids = id_strings(&r[side]);
                    let found = ids.iter().any(|i| known.contains(i));
                    rec.require("binary_reference_resolves", &format!("{rel}#{k}|{side}"), found, || format!("{rel} record {k}: {side} = {:?} is not in {:?}", r[side], pure_files));
                }
                // no duplicate pair in either orientation
                let a = id_strings(&r["id1"]).into_iter().find(|i| i.0 == "name").map(|i| i.1).unwrap_or_default();
                let b = id_strings(&r["id2"]).into_iter().find(|i| i.0 == "name").map(|i| i.1).unwrap_or_default();
                let key = if a <= b { (a.clone(), b.clone()) } else { (b.clone(), a.clone()) };
                rec.require("no_duplicate_identifier", &format!("{rel}|pair={a}/{b}"), pairs.insert(key), || format!("{rel}: pair {a}/{b} stored twice"));
            }
        }
        FileKind::SegmentBinary(seg_file) => {
            let r = n_of::<BinaryRecord<String, f64>>(rel);
            rec.require("parses", rel, r.as_ref().map(|n| *n == raw.len()).unwrap_or(false), || format!("{rel}: {r:?}"));
            let segs: BTreeSet<String> = load_value(seg_file).iter().filter_map(|s| s["identifier"].as_str().map(|s| s.to_string())).collect();
            for (k, r) in raw.iter().enumerate() {
                for side in ["id1", "id2"] {
                    let s = r[side].as_str().unwrap_or("");
                    rec.require("binary_reference_resolves", &format!("{rel}#{k}|{side}"), segs.contains(s), || format!("{rel} record {k}: segment {s} not in {seg_file}"));
                }
            }
        }
        FileKind::Chemical => {
            let r = n_of::<ChemicalRecord>(rel);
            rec.require("parses", rel, r.as_ref().map(|n| *n == raw.len()).unwrap_or(false), || format!("{rel}: {r:?}"));
            let mut names = BTreeSet::new();
            for (k, r) in raw.iter().enumerate() {
                let n = r["identifier"]["name"].as_str().unwrap_or("").to_string();
                rec.require("no_duplicate_identifier", &format!("{rel}|name={n}"), names.insert(n.clone()) && !n.is_empty(), || format!("{rel}: record {k} duplicates name {n}"));
                // bonds refer to existing segment positions
                let nseg = r["segments"].as_array().map(|a| a.len()).unwrap_or(0);
                if let Some(b) = r["bonds"].as_array() {
                    for bond in b {
                        let ok = bond.as_array().map(|p| p.iter().all(|i| i.as_u64().map(|i| (i as usize) < nseg).unwrap_or(false))).unwrap_or(false);
                        rec.require("bonds_in_range", &format!("{rel}#{k}"), ok, || format!("{rel} record {k}: bond {bond} out of range ({nseg} segments)"));
                    }
                }
            }
        }
        FileKind::StructureOnly => {
            // sauer2014_smarts.json has no Rust record type (Python fragmentation only): structural check
            for (k, r) in raw.iter().enumerate() {
                rec.require("parses", &format!("{rel}#{k}"), r.is_object(), || format!("{rel} record {k} is not an object"));
            }
        }
    }
}

/// one pure record of a model with a saturation curve
pub struct PureCase {
    pub file: String,
    pub name: String,
    pub build: Box<dyn Fn() -> Result<Arc<ResidualModel>, String> + Send + Sync>,
    pub tr_min: f64,
    /// helium with second-order Feynman-Hibbs correction is excepted by the property
    pub vle_excepted: bool,
}

/// physical critical point of a pure model: default start first, other initial temperatures if the
/// solver returns a spurious stationary point at non-positive pressure
pub fn physical_critical_point(eos: &Arc<ResidualModel>) -> Option<State<ResidualModel>> {
    let physical = |s: &State<ResidualModel>| s.pressure(Contributions::Total).to_reduced() > 0.0;
    let mut cp = State::critical_point(eos, None, None, Default::default()).ok().filter(|s| physical(s));
    if cp.is_none() {
        for t0 in [700.0, 500.0, 900.0, 400.0, 1100.0, 200.0, 100.0, 50.0, 20.0] {
            cp = State::critical_point(eos, None, Some(Temperature::from_reduced(t0)), Default::default()).ok().filter(|s| physical(s));
            if cp.is_some() {
                break;
            }
        }
    }
    cp
}

/// every pure PC-SAFT, SAFT-VR Mie and SAFT-VRQ Mie record shipped with the library
pub fn pure_cases() -> Vec<PureCase> {
    let mut pures: Vec<PureCase> = vec![];
    for f in PCSAFT_PURE {
        let f = format!("pcsaft/{f}.json");
        let recs: Vec<PureRecord<PcSaftRecord>> = load(&f).unwrap_or_default();
        for r in recs {
            let name = r.identifier.name.clone().or(r.identifier.cas.clone()).unwrap_or_default();
            pures.push(PureCase { file: f.to_string(), name, build: Box::new(move || PcSaftParameters::new_pure(r.clone()).map(|p| Arc::new(ResidualModel::PcSaft(PcSaft::new(Arc::new(p))))).map_err(|e| e.to_string())), tr_min: 0.45, vle_excepted: false });
        }
    }
    for r in load::<PureRecord<SaftVRMieRecord>>("saftvrmie/lafitte2013.json").unwrap_or_default() {
        let name = r.identifier.name.clone().unwrap_or_default();
        pures.push(PureCase { file: "saftvrmie/lafitte2013.json".into(), name, build: Box::new(move || SaftVRMieParameters::new_pure(r.clone()).map(|p| Arc::new(ResidualModel::SaftVRMie(SaftVRMie::new(Arc::new(p))))).map_err(|e| e.to_string())), tr_min: 0.45, vle_excepted: false });
    }
    for f in ["saftvrqmie/aasen2019.json", "saftvrqmie/aasen2019_fh2.json", "saftvrqmie/hammer2023.json"] {
        for r in load::<PureRecord<SaftVRQMieRecord>>(f).unwrap_or_default() {
            let name = r.identifier.name.clone().unwrap_or_default();
            let exc = f.contains("fh2") && name == "helium";
            pures.push(PureCase { file: f.to_string(), name, build: Box::new(move || SaftVRQMieParameters::new_pure(r.clone()).map(|p| Arc::new(ResidualModel::SaftVRQMie(SaftVRQMie::new(Arc::new(p))))).map_err(|e| e.to_string())), tr_min: 0.6, vle_excepted: exc });
        }
    }
    pures
}

pub fn tr_lattice(tr_min: f64, n: usize) -> Vec<f64> {
    (0..n).map(|k| tr_min + (0.99 - tr_min) * k as f64 / (n - 1) as f64).collect()
}

fn pure_case(c: &PureCase, rec: &mut Rec) {
    let eos = match (c.build)() {
        Ok(e) => e,
        Err(e) => {
            rec.require("builds", "", false, || format!("{}: {} does not build a model: {e}", c.file, c.name));
            return;
        }
    };
    rec.require("builds", "", true, String::new);
    // the record "has a critical point": the default start of the solver is tried first; a result at
    // non-positive pressure is a spurious stationary point of the solver (property C06), in which case
    // the search is repeated from other initial temperatures
    let default_ok = State::critical_point(&eos, None, None, Default::default()).ok().map(|s| s.pressure(Contributions::Total).to_reduced() > 0.0).unwrap_or(false);
    if !default_ok {
        rec.count("critical_point_needed_initial_temperature");
    }
    let cp = physical_critical_point(&eos);
    let Some(cp) = cp else {
        rec.require("critical_point", "", false, || format!("{}: {}: no critical point at positive pressure from any initial temperature", c.file, c.name));
        return;
    };
    let tc = cp.temperature;
    let pc = cp.pressure(Contributions::Total).to_reduced();
    rec.require("critical_point", "", tc.to_reduced().is_finite() && tc.to_reduced() > 0.0 && pc > 0.0 && pc.is_finite(), || format!("Tc = {tc}, pc = {pc}"));
    if c.vle_excepted {
        rec.skip("helium FH2: saturation curve excepted by the property");
        return;
    }
    for tr in tr_lattice(c.tr_min, 8) {
        let key = format!("Tr={tr:.4}");
        match PhaseEquilibrium::pure(&eos, tc * tr, None, Default::default()) {
            Ok(vle) => {
                let vals = [
                    vle.vapor().pressure(Contributions::Total).to_reduced(),
                    vle.liquid().pressure(Contributions::Total).to_reduced(),
                    vle.vapor().density.to_reduced(),
                    vle.liquid().density.to_reduced(),
                    vle.vapor().residual_molar_entropy().to_reduced(),
                    vle.liquid().residual_molar_entropy().to_reduced(),
                ];
                let ok = vals.iter().all(|v| v.is_finite()) && vals[2] > 0.0 && vals[3] > vals[2] && vals[0] > 0.0;
                rec.require("saturation_curve", &key, ok, || format!("{}: {} at Tr = {tr:.4}: p, rho, s = {vals:?}", c.file, c.name));
            }
            Err(e) => rec.require("saturation_curve", &key, false, || format!("{}: {}: no VLE at Tr = {tr:.4} (Tc = {tc}): {e}", c.file, c.name)),
        }
    }
}

fn gc_case(c: &String, rec: &mut Rec) {
    let name = c.as_str();
    let sub = pfile("pcsaft/gc_substances.json");
    let r = [
        ("homo:sauer2014", PcSaftParameters::from_json_segments(&[name], sub.clone(), pfile("pcsaft/sauer2014_homo.json"), None, IdentifierOption::Name).map(|_| ()).map_err(|e| e.to_string())),
        ("hetero:sauer2014:eos", GcPcSaftEosParameters::from_json_segments(&[name], sub.clone(), pfile("pcsaft/sauer2014_hetero.json"), None, IdentifierOption::Name).map(|_| ()).map_err(|e| e.to_string())),
        ("hetero:sauer2014:dft", GcPcSaftFunctionalParameters::from_json_segments(&[name], sub.clone(), pfile("pcsaft/sauer2014_hetero.json"), None, IdentifierOption::Name).map(|_| ()).map_err(|e| e.to_string())),
        ("homo:rehner2023", PcSaftParameters::from_json_segments(&[name], sub.clone(), pfile("pcsaft/rehner2023_homo.json"), Some(pfile("pcsaft/rehner2023_homo_binary.json")), IdentifierOption::Name).map(|_| ()).map_err(|e| e.to_string())),
        ("hetero:rehner2023:eos", GcPcSaftEosParameters::from_json_segments(&[name], sub.clone(), pfile("pcsaft/rehner2023_hetero.json"), Some(pfile("pcsaft/rehner2023_hetero_binary.json")), IdentifierOption::Name).map(|_| ()).map_err(|e| e.to_string())),
    ];
    let mut any = false;
    // reference decision read from the raw JSON: a table can assemble a substance iff it has every group the substance uses
    // and, for the homosegmented model, at most one group (counted with multiplicity) carries a dipole, a quadrupole or
    // association sites
    let raw = |f: &str| -> Vec<serde_json::Value> { serde_json::from_str(&std::fs::read_to_string(pfile(f)).unwrap()).unwrap() };
    let subs = raw("pcsaft/gc_substances.json");
    let segs: Vec<String> = subs.iter().find(|s| s["identifier"]["name"].as_str() == Some(name)).map(|s| s["segments"].as_array().unwrap().iter().map(|x| x.as_str().unwrap().to_string()).collect()).unwrap_or_default();
    let tables = ["pcsaft/sauer2014_homo.json", "pcsaft/sauer2014_hetero.json", "pcsaft/sauer2014_hetero.json", "pcsaft/rehner2023_homo.json", "pcsaft/rehner2023_hetero.json"];
    for (i, (k, v)) in r.iter().enumerate() {
        let table = raw(tables[i]);
        let find = |g: &str| table.iter().find(|t| t["identifier"].as_str() == Some(g));
        let complete = !segs.is_empty() && segs.iter().all(|g| find(g).is_some());
        let polar = segs
            .iter()
            .filter(|g| {
                find(g).is_some_and(|t| {
                    let m = &t["model_record"];
                    let n = |k: &str| m[k].as_f64().unwrap_or(0.0);
                    !m["mu"].is_null() || !m["q"].is_null() || n("na") + n("nb") + n("nc") > 0.0
                })
            })
            .count();
        let expect_ok = complete && (!k.starts_with("homo") || polar <= 1);
        match v {
            Ok(()) => {
                any = true;
                rec.require("gc_assembles", k, expect_ok, || format!("{name}: {k} assembles although the table is incomplete for it or it has {polar} polar/associating groups"));
            }
            // a substance may use groups that a given table does not contain (tables cover different chemistries)
            Err(e) => {
                rec.require("gc_assembles", k, !expect_ok, || format!("{name}: {k} has every group of {segs:?} and {polar} polar/associating group(s) but construction fails: {e}"));
                if !expect_ok {
                    rec.skip(&format!("segment table {k} lacks a group or the substance has several polar/associating groups"));
                }
            }
        }
    }
    // the sauer2014 tables accompany gc_substances.json: every substance assembles with them
    for k in 0..3 {
        rec.require("gc_assembles_sauer2014", r[k].0, r[k].1.is_ok(), || format!("{name}: {} fails: {:?}", r[k].0, r[k].1));
    }
    rec.require("gc_assembles_any", "", any, || format!("{name} cannot be assembled from any shipped segment table"));
    // Joback ideal gas from the same substance table
    match Joback::from_json_segments(&[name], sub.clone(), pfile("ideal_gas/joback1987.json"), None, IdentifierOption::Name) {
        Ok(_) => rec.require("gc_assembles", "joback1987", true, String::new),
        Err(_) => rec.skip("joback1987 lacks a group"),
    }
}

pub fn run(ctx: &mut Ctx) {
    // ---- files
    let pcsaft_pure_files: Vec<&'static str> = vec![
        "pcsaft/esper2023.json",
        "pcsaft/gross2001.json",
        "pcsaft/gross2002.json",
        "pcsaft/gross2005_fit.json",
        "pcsaft/gross2005_literature.json",
        "pcsaft/gross2006.json",
        "pcsaft/loetgeringlin2018.json",
        "pcsaft/rehner2020.json",
        "pcsaft/eller2022.json",
    ];
    let mut files: Vec<(String, FileKind)> = vec![];
    for f in &pcsaft_pure_files {
        files.push((f.to_string(), FileKind::Pure(n_of::<PureRecord<PcSaftRecord>>)));
    }
    files.push(("pcsaft/gross2002_binary.json".into(), FileKind::Binary(n_of::<BinaryRecord<Identifier, PcSaftBinaryRecord>>, pcsaft_pure_files.clone())));
    files.push(("pcsaft/gc_substances.json".into(), FileKind::Chemical));
    for f in ["pcsaft/sauer2014_homo.json", "pcsaft/loetgeringlin2015_homo.json", "pcsaft/rehner2023_homo.json"] {
        files.push((f.into(), FileKind::Segment(n_of::<SegmentRecord<PcSaftRecord>>)));
    }
    for f in ["pcsaft/sauer2014_hetero.json", "pcsaft/rehner2023_hetero.json"] {
        files.push((f.into(), FileKind::Segment(n_of::<SegmentRecord<GcPcSaftRecord>>)));
    }
    files.push(("pcsaft/rehner2023_homo_binary.json".into(), FileKind::SegmentBinary("pcsaft/rehner2023_homo.json")));
    files.push(("pcsaft/rehner2023_hetero_binary.json".into(), FileKind::SegmentBinary("pcsaft/rehner2023_hetero.json")));
    files.push(("pcsaft/sauer2014_smarts.json".into(), FileKind::StructureOnly));
    files.push(("epcsaft/held2014_w_permittivity_added.json".into(), FileKind::Pure(n_of::<PureRecord<ElectrolytePcSaftRecord>>)));
    files.push(("epcsaft/held2014_binary.json".into(), FileKind::Binary(n_of::<BinaryRecord<Identifier, ElectrolytePcSaftBinaryRecord>>, vec!["epcsaft/held2014_w_permittivity_added.json"])));
    files.push(("saftvrmie/lafitte2013.json".into(), FileKind::Pure(n_of::<PureRecord<SaftVRMieRecord>>)));
    for f in ["saftvrqmie/aasen2019.json", "saftvrqmie/aasen2019_fh2.json", "saftvrqmie/hammer2023.json"] {
        files.push((f.into(), FileKind::Pure(n_of::<PureRecord<SaftVRQMieRecord>>)));
    }
    files.push(("saftvrqmie/aasen2020_binary.json".into(), FileKind::Binary(n_of::<BinaryRecord<Identifier, SaftVRQMieBinaryRecord>>, vec!["saftvrqmie/aasen2019.json", "saftvrqmie/hammer2023.json"])));
    files.push(("saftvrqmie/aasen2020_binary_fh2.json".into(), FileKind::Binary(n_of::<BinaryRecord<Identifier, SaftVRQMieBinaryRecord>>, vec!["saftvrqmie/aasen2019_fh2.json"])));
    files.push(("ideal_gas/joback1987.json".into(), FileKind::Segment(n_of::<SegmentRecord<JobackRecord>>)));
    files.push(("ideal_gas/poling2000.json".into(), FileKind::Pure(n_of::<PureRecord<DipprRecord>>)));
    // every JSON file below the five directories is covered (rehner2023_binary.json excluded by name, as the property says)
    let mut on_disk: BTreeSet<String> = BTreeSet::new();
    for d in ["pcsaft", "epcsaft", "saftvrmie", "saftvrqmie", "ideal_gas"] {
        for e in std::fs::read_dir(pfile(d)).unwrap() {
            let n = e.unwrap().file_name().into_string().unwrap();
            if n.ends_with(".json") && n != "rehner2023_binary.json" {
                on_disk.insert(format!("{d}/{n}"));
            }
        }
    }
    let covered: BTreeSet<String> = files.iter().map(|f| f.0.clone()).collect();
    let missing: Vec<String> = on_disk.difference(&covered).cloned().collect();
    ctx.extra("files_on_disk", json!(on_disk.len()));
    ctx.extra("files_not_in_harness_table", json!(missing));
    ctx.run(&files, |c| format!("file|{}", c.0), file_case);
    if !missing.is_empty() {
        ctx.machinery_error = Some(format!("parameter files without a record type in the harness table: {missing:?}"));
    }
    // ---- pure records with a saturation curve
    let pures = pure_cases();
    ctx.extra("pure_records_with_saturation_curve", json!(pures.len()));
    ctx.run(&pures, |c| format!("{}|{}", c.file, c.name), pure_case);
    // ---- gc substances
    let subs: Vec<ChemicalRecord> = load("pcsaft/gc_substances.json").unwrap_or_default();
    let names: Vec<String> = subs.iter().filter_map(|c| c.identifier.name.clone()).collect();
    ctx.run(&names, |c| format!("gc|{c}"), gc_case);
    ctx.rule = "exhaustive: every JSON file under parameters/{pcsaft,epcsaft,saftvrmie,saftvrqmie,ideal_gas} (rehner2023_binary.json excluded by name) is parsed with the record type of its model and checked for duplicate lookup identifiers (name, cas / segment identifier / binary pair in either orientation), positive m, sigma, epsilon_k, molar weight, group-contribution assembly of every substance from every segment table succeeds exactly when the raw JSON says it must (all groups present; at most one polar/associating group for the homosegmented model), referential integrity of binary and segment-binary files and bond indices; every pure PC-SAFT, SAFT-VR Mie and SAFT-VRQ Mie record builds a model with a critical point and a vapor-liquid equilibrium with finite p, rho, s at 8 reduced temperatures in [0.45, 0.99] ([0.6, 0.99] for SAFT-VRQ Mie; helium FH2 excepted); every gc substance is assembled from the shipped segment tables. Both tiers enumerate the complete set.".into();
    ctx.assume("saturation curve sampled at 8 reduced temperatures per record (the lattice the property was calibrated on)");
}
