//! C03 — a constructed state reproduces its specification, or construction fails
use super::c15::{physical_critical_point, pure_cases};
use crate::engine::{Ctx, Rec, Tier};
use crate::zoo::{self, FullModel};
use feos::ResidualModel;
use feos_core::verif::with_plan;
use feos_core::{Contributions, DensityInitialization, EosError, ReferenceSystem, Residual, State};
use ndarray::{arr1, Array1};
use quantity::*;
use serde_json::json;
use std::sync::Arc;

type M = Arc<ResidualModel>;

#[derive(Debug, PartialEq, Clone, Copy)]
enum Class {
    OkDirect,
    OkNpt,
    OkNpvx,
    OkPh,
    OkPs,
    OkTh,
    OkTs,
    OkVu,
    ErrUndet,
}

/// Reference decision table written from the documented hierarchy of `State::new` / `new_full`
/// (bits: T V rho rho_i N N_i x_i p h s u).
fn reference(mask: u32, ncomp: usize) -> Class {
    let has = |b: u32| mask & (1 << b) != 0;
    let (t, v, rho, rhoi, n, ni, x, p, h, s, u) = (has(0), has(1), has(2), has(3), has(4), has(5), has(6), has(7), has(8), has(9), has(10));
    // over-determination
    if rho && rhoi {
        return Class::ErrUndet;
    }
    if n && ni {
        return Class::ErrUndet;
    }
    let any_rho = rho || rhoi;
    let any_n = n || ni;
    if any_rho && any_n && v {
        return Class::ErrUndet;
    }
    if rhoi && ni {
        return Class::ErrUndet;
    }
    let comp_sources = rhoi as u32 + ni as u32 + x as u32;
    if comp_sources > 1 {
        return Class::ErrUndet;
    }
    if comp_sources == 0 && ncomp > 1 {
        return Class::ErrUndet;
    }
    // amounts: given, or from density and volume; if neither a volume nor an amount is given the amount is 1
    let n_known = any_n || (any_rho && v) || (!v && !any_n);
    let v_known = v || (any_rho && n_known);
    if v_known && t && n_known {
        return Class::OkDirect;
    }
    if p && t && n_known {
        return Class::OkNpt;
    }
    if p && t && v_known {
        return Class::OkNpvx;
    }
    if !n_known {
        return Class::ErrUndet;
    }
    if p && h {
        return Class::OkPh;
    }
    if p && s {
        return Class::OkPs;
    }
    if t && h {
        return Class::OkTh;
    }
    if t && s {
        return Class::OkTs;
    }
    if u && v {
        return Class::OkVu;
    }
    Class::ErrUndet
}

struct Shape {
    ncomp: usize,
    eos: FullModel,
    mask: u32,
    full: bool,
    /// (input bit, poison kind) or None
    poison: Option<(u32, u8)>,
}

fn shape_case(c: &Shape, rec: &mut Rec) {
    let has = |b: u32| c.mask & (1 << b) != 0;
    let xs = if c.ncomp == 1 { arr1(&[1.0]) } else { arr1(&[0.4, 0.6]) };
    let t0 = 350.0 * KELVIN;
    let v0 = 0.02 * METER.powi::<typenum::P3>();
    let n0 = 1.0 * MOL;
    let ni0 = &xs * n0;
    let rho0 = n0 / v0;
    let rhoi0 = &xs * rho0;
    let s0 = State::new_nvt(&c.eos, t0, v0, &ni0).unwrap();
    let p0 = s0.pressure(Contributions::Total);
    let h0 = s0.molar_enthalpy(Contributions::Total);
    let se0 = s0.molar_entropy(Contributions::Total);
    let u0 = s0.molar_internal_energy(Contributions::Total);
    // poisoned copies
    let bad = |k: u8| match k {
        0 => f64::NAN,
        1 => f64::INFINITY,
        _ => -1.0,
    };
    let (mut t, mut v, mut rho, mut rhoi, mut n, mut ni, mut x) = (t0, v0, rho0, rhoi0.clone(), n0, ni0.clone(), xs.clone());
    let mut expect_err = false;
    if let Some((bit, kind)) = c.poison {
        expect_err = true;
        match (bit, kind) {
            (0, k) => t = bad(k) * KELVIN,
            (1, k) => v = bad(k) * METER.powi::<typenum::P3>(),
            (2, k) => rho = bad(k) * MOL / METER.powi::<typenum::P3>(),
            (3, 3) => rhoi = Density::from_reduced(Array1::from_elem(c.ncomp + 1, 1e-3)),
            (3, k) => rhoi = &arr1(&vec![bad(k); c.ncomp]) * (MOL / METER.powi::<typenum::P3>()),
            (4, k) => n = bad(k) * MOL,
            (5, 3) => ni = Moles::from_reduced(Array1::from_elem(c.ncomp + 1, 1.0)),
            (5, k) => {
                let mut a = xs.clone();
                a[0] = bad(k);
                ni = &a * MOL
            }
            (6, 3) => x = Array1::from_elem(c.ncomp + 1, 1.0 / (c.ncomp + 1) as f64),
            (6, k) => {
                x = xs.clone();
                x[0] = bad(k)
            }
            _ => expect_err = false,
        }
    }
    let run = || {
        if c.full {
            State::new_full(
                &c.eos,
                has(0).then_some(t),
                has(1).then_some(v),
                has(2).then_some(rho),
                has(3).then_some(&rhoi),
                has(4).then_some(n),
                has(5).then_some(&ni),
                has(6).then_some(&x),
                has(7).then_some(p0),
                has(8).then_some(h0),
                has(9).then_some(se0),
                has(10).then_some(u0),
                DensityInitialization::Vapor,
                Some(t0 * 0.97),
            )
        } else {
            State::new(&c.eos, has(0).then_some(t), has(1).then_some(v), has(2).then_some(rho), has(3).then_some(&rhoi), has(4).then_some(n), has(5).then_some(&ni), has(6).then_some(&x), has(7).then_some(p0), DensityInitialization::Vapor)
        }
    };
    let r = run();
    let exp = reference(if c.full { c.mask } else { c.mask & 0xff }, c.ncomp);
    rec.count(&format!("class:{exp:?}"));
    if expect_err {
        // a non-finite or negative value in a present input is never turned into a state: the call fails, or
        // the documented hierarchy did not use that input at all and the returned state is a valid one
        // (finite positive T and V, finite non-negative amounts, finite density)
        let valid = |s: &State<_>| {
            let (t, v) = (s.temperature.to_reduced(), s.volume.to_reduced());
            t.is_finite() && t > 0.0 && v.is_finite() && v > 0.0 && s.density.to_reduced().is_finite() && s.moles.to_reduced().iter().all(|n| n.is_finite() && *n >= 0.0) && s.molefracs.iter().all(|x| x.is_finite() && *x >= 0.0) && s.moles.len() == c.ncomp
        };
        match &r {
            Err(_) => rec.require("rejects_invalid", "", true, String::new),
            Ok(s) => rec.require("rejects_invalid", "", valid(s), || format!("poisoned input (bit, kind) = {:?} was turned into the state T = {}, V = {}, rho = {}, N = {}", c.poison, s.temperature, s.volume, s.density, s.moles)),
        }
        return;
    }
    let relq = |a: f64, b: f64| (a - b).abs() / b.abs().max(1e-300);
    match (&r, exp) {
        (Ok(s), Class::ErrUndet) => rec.require("decision_table", "", false, || format!("mask {:011b}: documented hierarchy says under/over-determined, got a state T={} rho={}", c.mask, s.temperature, s.density)),
        (Err(EosError::UndeterminedState(_)), Class::ErrUndet) => rec.require("decision_table", "", true, String::new),
        (Err(e), Class::ErrUndet) => rec.require("decision_table", "", false, || format!("mask {:011b}: expected UndeterminedState, got {e}", c.mask)),
        (Err(e), _) => rec.require("decision_table", "", false, || format!("mask {:011b}: expected {exp:?}, got error {e}", c.mask)),
        (Ok(s), _) => {
            rec.require("decision_table", "", true, String::new);
            // echo of the specification
            if has(0) {
                rec.require("echo", "T", s.temperature == t0, || format!("T = {} instead of {t0}", s.temperature));
            }
            let n_expected = has(4) || has(5) || (!has(1)) || (has(1) && (has(2) || has(3)));
            if has(1) {
                rec.check("echo", "V", relq(s.volume.to_reduced(), v0.to_reduced()) / 1e-14, true, || format!("V = {} instead of {v0}", s.volume));
            }
            if (has(2) || has(3)) && exp == Class::OkDirect {
                rec.check("echo", "rho", relq(s.density.to_reduced(), rho0.to_reduced()) / 1e-13, true, || format!("rho = {} instead of {rho0}", s.density));
            }
            if has(3) && exp == Class::OkDirect {
                let e = (0..c.ncomp).map(|i| relq(s.partial_density.get(i).to_reduced(), rhoi0.get(i).to_reduced())).fold(0.0, f64::max);
                rec.check("echo", "rho_i", e / 1e-13, true, || format!("partial densities off by {e:e}"));
            }
            if n_expected && (has(4) || has(5)) {
                rec.check("echo", "N", relq(s.total_moles.to_reduced(), n0.to_reduced()) / 1e-13, true, || format!("N = {} instead of {n0}", s.total_moles));
            }
            let e = (0..c.ncomp).map(|i| (s.molefracs[i] - xs[i]).abs()).fold(0.0, f64::max);
            rec.check("echo", "x", e / 1e-14, true, || format!("mole fractions {} instead of {xs}", s.molefracs));
            if has(7) && exp != Class::OkDirect {
                rec.check("iterative_target", "p", relq(s.pressure(Contributions::Total).to_reduced(), p0.to_reduced()) / 1e-7, true, || format!("p = {} instead of {p0}", s.pressure(Contributions::Total)));
            }
            match exp {
                Class::OkPh | Class::OkTh => rec.check("iterative_target", "h", relq(s.molar_enthalpy(Contributions::Total).to_reduced(), h0.to_reduced()) / 1e-7, true, || format!("h = {} instead of {h0}", s.molar_enthalpy(Contributions::Total))),
                Class::OkPs | Class::OkTs => rec.check("iterative_target", "s", relq(s.molar_entropy(Contributions::Total).to_reduced(), se0.to_reduced()) / 1e-7, true, || format!("s = {} instead of {se0}", s.molar_entropy(Contributions::Total))),
                Class::OkVu => rec.check("iterative_target", "u", relq(s.molar_internal_energy(Contributions::Total).to_reduced(), u0.to_reduced()) / 1e-7, true, || format!("u = {} instead of {u0}", s.molar_internal_energy(Contributions::Total))),
                _ => (),
            }
        }
    }
}

// ---------------------------------------------------------------------------------------
// E2: (T, p) lattice with every density initialisation

struct TpCase {
    id: String,
    eos: M,
    x: Array1<f64>,
    tc: f64,
    pc: f64,
    rhoc: f64,
    tr: f64,
    pr: f64,
    /// success clause applies (Gross-Sadowski collections)
    must_succeed: bool,
}

fn tp_case(c: &TpCase, rec: &mut Rec) {
    let t = Temperature::from_reduced(c.tc * c.tr);
    let p = Pressure::from_reduced(c.pc * c.pr);
    let m = Moles::from_reduced(c.x.clone());
    let rmax = c.eos.max_density(Some(&m)).unwrap();
    let relp = |s: &State<ResidualModel>| ((s.pressure(Contributions::Total) - p) / p).into_value().abs();
    let mut results: Vec<(&str, Option<State<ResidualModel>>)> = vec![];
    for (name, init) in [("none", DensityInitialization::None), ("vapor", DensityInitialization::Vapor), ("liquid", DensityInitialization::Liquid)] {
        let r = State::new_npt(&c.eos, t, p, &m, init);
        match r {
            Ok(s) => {
                rec.require("found", name, true, String::new);
                rec.check("pressure_reproduced", name, relp(&s) / 1e-7, true, || format!("hint {name}: state at p = {} instead of {p} (T = {t}, rho = {})", s.pressure(Contributions::Total), s.density));
                rec.require("echo", name, s.temperature == t && (s.molefracs.clone() - &c.x / c.x.sum()).iter().all(|d| d.abs() < 1e-14), || "T or composition not echoed".into());
                rec.require("mechanically_stable", name, s.dp_dv(Contributions::Total).to_reduced() <= 0.0, || format!("hint {name}: returned state has dp/dV > 0 (rho = {})", s.density));
                results.push((name, Some(s)));
            }
            Err(e) => {
                if c.must_succeed {
                    rec.require("found", name, false, || format!("{}: no state at Tr = {:.4}, pr = {:.3e} with hint {name}: {e}", c.id, c.tr, c.pr));
                } else {
                    rec.skip("new_npt fails (conditional)");
                }
                results.push((name, None));
            }
        }
    }
    // initial-density ladder (including densities inside the unstable region): whenever Ok, p is reproduced
    let mut roots: Vec<f64> = vec![];
    for k in 0..12 {
        let rho0 = rmax * 10f64.powf(-5.0 + 5.0 * k as f64 / 11.0);
        match State::new_npt(&c.eos, t, p, &m, DensityInitialization::InitialDensity(rho0)) {
            Ok(s) => {
                rec.check("pressure_reproduced", &format!("rho0_{k}"), relp(&s) / 1e-7, true, || format!("InitialDensity({rho0}): accepted state at p = {} instead of {p}", s.pressure(Contributions::Total)));
                if relp(&s) < 1e-7 && s.dp_dv(Contributions::Total).to_reduced() < 0.0 && s.density <= rmax {
                    roots.push(s.density.to_reduced());
                }
            }
            Err(_) => rec.skip("InitialDensity start fails (conditional)"),
        }
    }
    // no hint = the root of lower Gibbs energy among the hinted results
    if let (Some(n), Some(v), Some(l)) = (&results[0].1, &results[1].1, &results[2].1) {
        let (gv, gl) = (v.residual_molar_gibbs_energy().to_reduced(), l.residual_molar_gibbs_energy().to_reduced());
        let distinct = ((l.density - v.density) / l.density).into_value().abs() > 1e-6;
        if distinct {
            rec.count("two_roots");
            let best = if gl > gv { v } else { l };
            let e = ((n.density - best.density) / best.density).into_value().abs();
            rec.check("stable_root", "", e / 1e-8, true, || format!("no hint returns rho = {}, but the root of lower Gibbs energy is rho = {} (g_v = {gv:e}, g_l = {gl:e})", n.density, best.density));
        } else {
            let e = ((n.density - v.density) / v.density).into_value().abs();
            rec.check("stable_root", "single", e / 1e-8, true, || format!("single root: no hint rho = {} vs hinted rho = {}", n.density, v.density));
        }
        // with a hint the result lies on the requested branch *when both exist*: existence is established
        // independently by the ladder scan (a mechanically stable root below and one above the critical density,
        // both within the model's density range)
        for s in [v, l] {
            if s.density <= rmax {
                roots.push(s.density.to_reduced());
            }
        }
        let vapor_exists = roots.iter().any(|r| *r < 0.999 * c.rhoc);
        let liquid_exists = roots.iter().any(|r| *r > 1.001 * c.rhoc);
        if c.x.len() == 1 && c.tr < 1.0 && vapor_exists && liquid_exists {
            rec.count("both_branches_exist");
            rec.require("branch", "vapor_hint", v.density.to_reduced() < c.rhoc, || format!("both branches exist (roots {roots:?}, rho_c = {}), but the vapor hint returns rho = {}", c.rhoc, v.density.to_reduced()));
            rec.require("branch", "liquid_hint", l.density.to_reduced() > c.rhoc, || format!("both branches exist (roots {roots:?}, rho_c = {}), but the liquid hint returns rho = {}", c.rhoc, l.density.to_reduced()));
        }
    }
    // deviation: the two shadowed density iterations of DensityInitialization::None
    if let (Some(v), Some(l)) = (&results[1].1, &results[2].1) {
        for plan in [vec![("new_npt.liquid", 0)], vec![("new_npt.vapor", 0)], vec![("new_npt.liquid", 0), ("new_npt.vapor", 0)]] {
            let (r, trace) = with_plan(&plan, || State::new_npt(&c.eos, t, p, &m, DensityInitialization::None));
            let forced = trace.iter().filter(|s| s.2).count();
            let pname = format!("{:?}", plan.iter().map(|p| p.0).collect::<Vec<_>>());
            if forced == 0 {
                continue;
            }
            match r {
                Ok(s) => {
                    rec.check("deviation", &format!("{pname}|p"), relp(&s) / 1e-7, true, || format!("with {pname} failing: state at another pressure"));
                    let survivor = if plan[0].0 == "new_npt.liquid" { v } else { l };
                    if forced == 1 && trace.len() == 2 {
                        let e = ((s.density - survivor.density) / survivor.density).into_value().abs();
                        rec.check("deviation", &format!("{pname}|survivor"), e / 1e-9, true, || format!("with {pname} failing the result is not the surviving root"));
                    }
                    rec.require("deviation", &format!("{pname}|both"), forced < 2 || trace.len() < 2, || "both iterations failed but a state was returned".into());
                }
                Err(_) => rec.require("deviation", &format!("{pname}|err"), true, String::new),
            }
        }
    }
}

// ---------------------------------------------------------------------------------------
// E3: Newton constructors

fn npvx_case(c: &(String, FullModel, Array1<f64>, f64, f64), rec: &mut Rec) {
    let (_, eos, x, t, pbar) = c;
    let (tq, pq, vq) = (*t * KELVIN, *pbar * BAR, 2.5e-3 * METER.powi::<typenum::P3>());
    let xn = x / x.sum();
    for (hn, hint) in [("none", DensityInitialization::None), ("vapor", DensityInitialization::Vapor), ("liquid", DensityInitialization::Liquid)] {
        let routes: Vec<(&str, Result<State<_>, EosError>)> = vec![
            ("new_npvx", State::new_npvx(eos, tq, pq, vq, x, hint)),
            ("builder", {
                let b = feos_core::StateBuilder::new(eos).temperature(tq).pressure(pq).volume(vq).molefracs(x);
                match hn {
                    "vapor" => b.vapor().build(),
                    "liquid" => b.liquid().build(),
                    _ => b.build(),
                }
            }),
        ];
        for (rn, r) in routes {
            let sub = format!("{rn}|{hn}");
            match r {
                Ok(s) => {
                    let pe = ((s.pressure(Contributions::Total) - pq) / pq).into_value().abs();
                    rec.check("npvx_pressure_reproduced", &sub, pe / 1e-8, true, || format!("requested {pq}, state has {} (sum of the mole fractions handed in: {})", s.pressure(Contributions::Total), x.sum()));
                    rec.require("npvx_echo", &format!("{sub}|T,V"), s.temperature == tq && ((s.volume - vq) / vq).into_value().abs() < 1e-14, || format!("T = {}, V = {}", s.temperature, s.volume));
                    let dx = (&s.molefracs - &xn).iter().fold(0.0f64, |a, b| a.max(b.abs()));
                    rec.check("npvx_echo", &format!("{sub}|x"), dx / 1e-14, true, || format!("mole fractions {} instead of {}", s.molefracs, xn));
                    let dn = ((s.total_moles - s.density * s.volume) / s.total_moles).into_value().abs();
                    rec.check("npvx_echo", &format!("{sub}|N=rho V"), dn / 1e-13, true, || format!("N = {}, rho V = {}", s.total_moles, s.density * s.volume));
                }
                Err(_) => rec.skip("(T, p, V, x) construction fails for this hint (conditional)"),
            }
        }
    }
}

fn newton_case(c: &(String, FullModel, Array1<f64>, f64, f64), rec: &mut Rec) {
    let (_, eos, x, t, eta) = c;
    let m = Moles::from_reduced(x.clone());
    let rmax = eos.max_density(Some(&m)).unwrap();
    let s0 = State::new_nvt(eos, Temperature::from_reduced(*t), m.sum() / (rmax * *eta), &m).unwrap();
    if !(s0.dp_dv(Contributions::Total).to_reduced() < 0.0) || !(s0.pressure(Contributions::Total).to_reduced() > 0.0) {
        rec.skip("not a single-phase candidate (dp/dV >= 0 or p <= 0)");
        return;
    }
    let (p, h, s, u) = (s0.pressure(Contributions::Total), s0.molar_enthalpy(Contributions::Total), s0.molar_entropy(Contributions::Total), s0.molar_internal_energy(Contributions::Total));
    let init = DensityInitialization::InitialDensity(s0.density);
    let rel = |a: f64, b: f64| (a - b).abs() / b.abs().max(1e-300);
    for f in [1.0, 0.8, 1.25] {
        let ti = Some(s0.temperature * f);
        let di = if f == 1.0 { init } else { DensityInitialization::InitialDensity(s0.density * f) };
        let mut chk = |name: &str, r: Result<State<_>, EosError>, tgt: &dyn Fn(&State<_>) -> (f64, f64)| match r {
            Ok(q) => {
                let (got, want) = tgt(&q);
                rec.check("newton_target", &format!("{name}|guess={f}"), rel(got, want) / 1e-7, true, || format!("{name} with guess x{f}: target {want:e}, state has {got:e}"));
                let ok = q.temperature.to_reduced().is_finite() && q.temperature.to_reduced() > 0.0 && q.density.to_reduced() > 0.0;
                rec.require("newton_target", &format!("{name}|valid|{f}"), ok, || format!("{name}: returned T = {}, rho = {}", q.temperature, q.density));
            }
            Err(_) => rec.skip("Newton constructor fails (conditional)"),
        };
        chk("new_nph", State::new_nph(eos, p, h, &m, di, ti), &|q| (q.molar_enthalpy(Contributions::Total).to_reduced(), h.to_reduced()));
        chk("new_nps", State::new_nps(eos, p, s, &m, di, ti), &|q| (q.molar_entropy(Contributions::Total).to_reduced(), s.to_reduced()));
        chk("new_nth", State::new_nth(eos, s0.temperature, h, &m, di), &|q| (q.molar_enthalpy(Contributions::Total).to_reduced(), h.to_reduced()));
        chk("new_nts", State::new_nts(eos, s0.temperature, s, &m, di), &|q| (q.molar_entropy(Contributions::Total).to_reduced(), s.to_reduced()));
        chk("new_nvu", State::new_nvu(eos, s0.volume, u, &m, ti), &|q| (q.molar_internal_energy(Contributions::Total).to_reduced(), u.to_reduced()));
        // the other half of the specification is echoed
        if let Ok(q) = State::new_nph(eos, p, h, &m, di, ti) {
            rec.check("newton_target", &format!("new_nph|p|{f}"), rel(q.pressure(Contributions::Total).to_reduced(), p.to_reduced()) / 1e-7, true, || "p not reproduced by new_nph".into());
        }
        if let Ok(q) = State::new_nvu(eos, s0.volume, u, &m, ti) {
            rec.check("newton_target", &format!("new_nvu|V|{f}"), rel(q.volume.to_reduced(), s0.volume.to_reduced()) / 1e-14, true, || "V not echoed by new_nvu".into());
        }
    }
}

pub fn run(ctx: &mut Ctx) {
    ctx.level = "fault_enumeration";
    let tier = ctx.tier;
    let recs = zoo::dippr_records();
    let z = zoo::zoo(Tier::Thorough);
    let full1 = zoo::with_ideal_gas(z.iter().find(|e| e.id == "pcsaft:propane").unwrap(), &recs).unwrap();
    let full2 = zoo::with_ideal_gas(z.iter().find(|e| e.id == "pcsaft:propane+butane").unwrap(), &recs).unwrap();
    // ---- E1: every subset of the optional inputs x poison values
    let mut shapes = vec![];
    for (ncomp, eos) in [(1usize, &full1), (2usize, &full2)] {
        for full in [false, true] {
            let nbits = if full { 11 } else { 8 };
            for mask in 0u32..(1 << nbits) {
                shapes.push(Shape { ncomp, eos: eos.clone(), mask, full, poison: None });
                for bit in 0..7u32 {
                    if mask & (1 << bit) == 0 {
                        continue;
                    }
                    let kinds: &[u8] = if [3, 5, 6].contains(&bit) { &[0, 1, 2, 3] } else { &[0, 1, 2] };
                    // the full product in the thorough tier; one poison kind per (mask, bit) rotating in the quick tier
                    for &k in kinds {
                        if tier == Tier::Thorough || (mask + bit) % kinds.len() as u32 == k as u32 {
                            shapes.push(Shape { ncomp, eos: eos.clone(), mask, full, poison: Some((bit, k)) });
                        }
                    }
                }
            }
        }
    }
    ctx.extra("constructor_input_shapes", json!(shapes.len()));
    ctx.run(&shapes, |c| format!("shape|n={}|{}|mask={:011b}|poison={:?}", c.ncomp, if c.full { "new_full" } else { "new" }, c.mask, c.poison), shape_case);
    // ---- E2: (T, p) lattice
    let cases = pure_cases();
    let gs = ["pcsaft/gross2001.json", "pcsaft/gross2002.json", "pcsaft/gross2006.json", "pcsaft/gross2005_fit.json"];
    let mut tp = vec![];
    let (ntr, npr) = (tier.pick(7, 37), tier.pick(5, 21));
    let mut k = 0;
    for c in &cases {
        let is_gs = gs.contains(&c.file.as_str());
        let other = c.file.starts_with("saftvrmie");
        if !is_gs && !other {
            continue;
        }
        k += 1;
        if tier == Tier::Quick && k % 9 != 0 {
            continue;
        }
        let Ok(eos) = (c.build)() else { continue };
        let Some(cp) = physical_critical_point(&eos) else { continue };
        let (tc, pc, rhoc) = (cp.temperature.to_reduced(), cp.pressure(Contributions::Total).to_reduced(), cp.density.to_reduced());
        // the uniform lattice plus a band just below the critical temperature, where the liquid spinodal pressure is positive
        // and a requested pressure can lie below it (the "no liquid root" exit of the density iteration)
        let mut trs: Vec<f64> = (0..ntr).map(|i| 0.45 + 1.2 * i as f64 / (ntr - 1) as f64).collect();
        trs.extend(tier.pick(vec![0.93, 0.97], vec![0.9, 0.925, 0.94, 0.96, 0.975, 0.985, 0.995]));
        for tr in trs {
            for j in 0..npr {
                let pr = 10f64.powf(-4.0 + 5.0 * j as f64 / (npr - 1) as f64);
                tp.push(TpCase { id: format!("{}|{}", c.file, c.name), eos: eos.clone(), x: arr1(&[1.0]), tc, pc, rhoc, tr, pr, must_succeed: is_gs });
            }
        }
    }
    // other models and mixtures: conditions only
    for e in zoo::zoo(tier) {
        if e.functional || e.electrolyte || !(e.id.starts_with("pr:") || e.id.starts_with("pcsaft:") || e.id.starts_with("pets:") || e.id.starts_with("gcpcsaft:")) {
            continue;
        }
        for x in e.compositions(Tier::Quick) {
            let Ok(cp) = State::critical_point(&e.eos, Some(&Moles::from_reduced(x.clone())), None, Default::default()) else { continue };
            let (tc, pc, rhoc) = (cp.temperature.to_reduced(), cp.pressure(Contributions::Total).to_reduced(), cp.density.to_reduced());
            if !(pc > 0.0) {
                continue;
            }
            for i in 0..5 {
                for j in 0..4 {
                    tp.push(TpCase { id: e.id.clone(), eos: e.eos.clone(), x: x.clone(), tc, pc, rhoc, tr: 0.5 + 0.3 * i as f64, pr: 10f64.powf(-3.0 + 4.0 * j as f64 / 3.0), must_succeed: false });
                }
            }
        }
    }
    ctx.run(&tp, |c| format!("{}|x={}|Tr={:.4}|pr={:.3e}", c.id, super::common::xs(&c.x), c.tr, c.pr), tp_case);
    // ---- E3: Newton constructors from reachable single-phase states
    let mut nw = vec![];
    for (id, eos, x) in [("dippr+pcsaft:propane", &full1, arr1(&[1.0])), ("dippr+pcsaft:propane+butane", &full2, arr1(&[0.4, 0.6]))] {
        for t in tier.pick(vec![250.0, 420.0], vec![200.0, 250.0, 330.0, 420.0, 600.0]) {
            for eta in tier.pick(vec![1e-3, 0.05, 0.8], vec![1e-4, 1e-3, 1e-2, 0.05, 0.7, 0.8, 0.9]) {
                nw.push((id.to_string(), eos.clone(), x.clone(), t, eta));
            }
        }
    }
    ctx.run(&nw, |c| format!("newton|{}|T={}|eta={}", c.0, c.3, c.4), newton_case);
    // ---- E4: (T, p, V, x) with mole fractions that are not normalised (the documented meaning of x_i is a ratio): the state
    // reproduces T, V and p, and x / sum(x), for every hint, through new_npvx, State::new and the StateBuilder
    let mut pv = vec![];
    for (id, eos, x) in [("dippr+pcsaft:propane", &full1, arr1(&[1.0])), ("dippr+pcsaft:propane+butane", &full2, arr1(&[0.3, 0.7]))] {
        for scale in [1.0, 0.5, 2.0, 10.0] {
            for (t, pbar) in [(300.0, 1.0), (300.0, 50.0), (450.0, 20.0)] {
                pv.push((id.to_string(), eos.clone(), &x * scale, t, pbar));
            }
        }
    }
    ctx.run(&pv, |c| format!("npvx|{}|x={}|T={}|p={}bar", c.0, super::common::xs(&c.2), c.3, c.4), npvx_case);
    ctx.rule = format!("E1: every subset of the optional constructor inputs (2^8 for State::new, 2^11 for State::new_full) x component count {{1,2}} x a poisoned value (NaN, +inf, -1, wrong vector length) in each present T/V/rho/rho_i/N/N_i/x_i input vs a reference decision table written from the documented hierarchy, with echo of every given quantity; E2 (uniform T_r lattice plus a band just below T_c where the liquid spinodal pressure is positive): Gross-Sadowski PC-SAFT records (success clause) and SAFT-VR Mie, PR, PeTS, gc-PC-SAFT, mixtures (conditions) x T_r ({ntr} points in [0.45,1.65]) x p_r ({npr} points in [1e-4,10], log) x {{no hint, vapor, liquid}} + 12 initial densities incl. the unstable region: p reproduced to 1e-7, no-hint = lower Gibbs energy root, vapor-hint density < liquid-hint density, deviation: each / both of the two shadowed density iterations of new_npt forced to fail (H3); E3: new_nph/nps/nth/nts/nvu asked for the (p,h),(p,s),(T,h),(T,s),(V,u) of reachable single-phase states with guesses x{{1,0.8,1.25}}");
    ctx.assume("(T, p, rho0) on the stated lattices; models = Gross-Sadowski records + zoo subset");
}
