//! C11 — history and schedule independence (DESIGN §4.2, §4.4, §5 C11)
//!
//! E1: explicit-state BFS over the real `State` cache to closure (all histories of any length).
//! E2: loom exploration of all interleavings of 2–3 threads on the real `Mutex<Cache>` (subprocess).
//! E3: every (threads, chunksize, npoints) configuration of `PhaseDiagram::par_pure`.
use crate::engine::{Ctx, Rec, Tier, Violation};
use crate::zoo::{self, FullModel, Model};
use feos_core::{Contributions, Derivative, PhaseDiagram, PhaseEquilibrium, ReferenceSystem, Residual, State};
use ndarray::{arr1, Array1};
use quantity::*;
use serde_json::{json, Value};
use std::collections::{BTreeMap, BTreeSet, HashMap, VecDeque};
use std::sync::Arc;

#[derive(Clone, Copy, Debug, PartialEq)]
pub struct Op(pub u8, pub Derivative, pub Derivative);

pub fn ops(n: usize) -> Vec<Op> {
    use Derivative::*;
    let mut vars = vec![DV, DT];
    for i in 0..n {
        vars.push(DN(i));
    }
    let mut o = vec![Op(0, DV, DV)];
    for &v in &vars {
        o.push(Op(1, v, v));
    }
    o.push(Op(2, DV, DV));
    o.push(Op(2, DT, DT));
    o.push(Op(3, DV, DT));
    o.push(Op(3, DT, DV));
    for i in 0..n {
        o.push(Op(3, DV, DN(i)));
        o.push(Op(3, DT, DN(i)));
        o.push(Op(3, DN(i), DV));
        o.push(Op(3, DN(i), DT));
    }
    for i in 0..n {
        for j in 0..n {
            o.push(Op(3, DN(i), DN(j)));
        }
    }
    o.push(Op(4, DV, DV));
    o.push(Op(4, DT, DT));
    o
}

fn dcode(d: Derivative) -> i64 {
    match d {
        Derivative::DV => -2,
        Derivative::DT => -1,
        Derivative::DN(i) => i as i64,
    }
}
fn op_json(o: &Op) -> Value {
    json!([o.0, dcode(o.1), dcode(o.2)])
}
fn op_name(o: &Op) -> String {
    let d = |d: Derivative| match d {
        Derivative::DV => "V".to_string(),
        Derivative::DT => "T".to_string(),
        Derivative::DN(i) => format!("N{i}"),
    };
    match o.0 {
        0 => "A".into(),
        1 => format!("d/d{}", d(o.1)),
        2 => format!("d2/d{}2", d(o.1)),
        3 => format!("d2/d{}d{}", d(o.1), d(o.2)),
        _ => format!("d3/d{}3", d(o.1)),
    }
}

type Snap = Vec<(String, u64)>;

/// ideal-gas magnitude of a cache entry (reduced units): absolute floor for comparisons
fn floor_of(key: &str, t: f64, v: f64, n: f64) -> f64 {
    let mut s = n * t;
    let mut it = key.split(':');
    let kind = it.next().unwrap_or("0");
    let vars = it.next().unwrap_or("");
    let order = match kind {
        "1" => 1,
        "2" | "2m" => 2,
        "3" => 3,
        _ => 0,
    };
    let list: Vec<&str> = vars.split(',').filter(|s| !s.is_empty()).collect();
    let mut apply = |w: &str| {
        if w == "V" {
            s /= v
        } else if w == "T" {
            s /= t
        } else {
            s /= n
        }
    };
    if list.len() == 2 {
        apply(list[0]);
        apply(list[1]);
    } else if list.len() == 1 {
        for _ in 0..order {
            apply(list[0]);
        }
    }
    1e-12 * s.abs()
}
fn close(a: f64, b: f64, floor: f64) -> bool {
    (a - b).abs() <= 1e-9 * a.abs().max(b.abs()) + floor
}

pub struct BfsResult {
    pub name: String,
    pub states: usize,
    pub transitions: usize,
    pub max_depth: usize,
    pub validated: usize,
    pub getter_checks: usize,
    pub worst_dev: f64,
    pub multi_bit_keys: Vec<String>,
    pub violations: Vec<Violation>,
    pub sample_traces: Vec<Value>,
    pub order_dependent_pairs: Vec<(Op, Op)>,
    pub capped: bool,
}

/// Public getters layered on the cache (generic part).
fn getters<E: Residual>(s: &State<E>) -> Vec<(&'static str, f64)> {
    let mut v = vec![
        ("pressure", s.pressure(Contributions::Total).to_reduced()),
        ("residual_entropy", s.residual_entropy().to_reduced()),
        ("residual_helmholtz_energy", s.residual_helmholtz_energy().to_reduced()),
        ("dp_dv", s.dp_dv(Contributions::Total).to_reduced()),
        ("dp_dt", s.dp_dt(Contributions::Total).to_reduced()),
        ("d2p_dv2", s.d2p_dv2(Contributions::Total).to_reduced()),
        ("ds_res_dt", s.ds_res_dt().to_reduced()),
        ("d2s_res_dt2", s.d2s_res_dt2().to_reduced()),
        ("cp_res", s.residual_molar_isobaric_heat_capacity().to_reduced()),
        ("kappa_T", s.isothermal_compressibility().to_reduced()),
        ("structure_factor", s.structure_factor()),
    ];
    for (k, x) in s.residual_chemical_potential().to_reduced().iter().enumerate() {
        v.push((["mu0", "mu1", "mu2", "mu3"][k.min(3)], *x));
    }
    for x in s.dp_dni(Contributions::Total).to_reduced().iter() {
        v.push(("dp_dni", *x));
    }
    for x in s.dmu_dni(Contributions::Total).to_reduced().iter() {
        v.push(("dmu_dni", *x));
    }
    for x in s.dmu_res_dt().to_reduced().iter() {
        v.push(("dmu_res_dt", *x));
    }
    for x in s.ln_phi().iter() {
        v.push(("ln_phi", *x));
    }
    for x in s.dln_phi_dnj().to_reduced().iter() {
        v.push(("dln_phi_dnj", *x));
    }
    for x in s.partial_molar_volume().to_reduced().iter() {
        v.push(("partial_molar_volume", *x));
    }
    v
}

pub fn bfs<E: Residual>(name: &str, fresh: &dyn Fn() -> State<E>, ncomp: usize, extra: &dyn Fn(&State<E>) -> Vec<(&'static str, f64)>, state_cap: usize) -> BfsResult {
    let ops = ops(ncomp);
    let s0 = fresh();
    let (t, v, ntot) = (s0.temperature.to_reduced(), s0.volume.to_reduced(), s0.total_moles.to_reduced());
    let mut violations: Vec<Violation> = vec![];
    let mut viol = |key: String, detail: String| {
        if violations.len() < 50 {
            violations.push(Violation { key: format!("{name}|{key}"), case_key: format!("bfs|{name}"), detail });
        }
    };
    // sequential references from fresh states
    let refv: Vec<f64> = ops.iter().map(|o| fresh().verif_partial_derivative(o.0, o.1, o.2)).collect();
    let mut ref_key: BTreeMap<String, f64> = BTreeMap::new();
    for o in &ops {
        let s = fresh();
        let val = s.verif_partial_derivative(o.0, o.1, o.2);
        let snap = s.verif_cache_snapshot();
        // the key that holds exactly the returned bits is the requested one
        for (k, b) in &snap {
            if *b == val.to_bits() {
                ref_key.entry(k.clone()).or_insert(val);
            }
        }
    }
    for o in &ops {
        let s = fresh();
        s.verif_partial_derivative(o.0, o.1, o.2);
        for (k, b) in s.verif_cache_snapshot() {
            ref_key.entry(k).or_insert(f64::from_bits(b));
        }
    }
    let ref_getters: Vec<(&'static str, f64)> = {
        let s = fresh();
        let mut g = getters(&s);
        g.extend(extra(&s));
        g
    };
    // structural operations on the initial state
    {
        if !s0.verif_cache_snapshot().is_empty() {
            viol("fresh|cache".into(), "fresh state has a non-empty cache".into());
        }
    }

    let mut seen: HashMap<Snap, usize> = HashMap::new();
    let mut meta: Vec<(usize, usize, usize)> = vec![]; // (parent, op, depth)
    let mut keys: Vec<Snap> = vec![];
    let mut frontier: VecDeque<(State<E>, usize)> = VecDeque::new();
    seen.insert(s0.verif_cache_snapshot(), 0);
    keys.push(s0.verif_cache_snapshot());
    meta.push((usize::MAX, usize::MAX, 0));
    frontier.push_back((s0, 0));
    let (mut transitions, mut max_depth, mut worst, mut getter_checks) = (0usize, 0usize, 0.0f64, 0usize);
    let mut bits: BTreeMap<String, BTreeSet<u64>> = BTreeMap::new();
    let mut capped = false;
    while let Some((st, id)) = frontier.pop_front() {
        let depth = meta[id].2;
        max_depth = max_depth.max(depth);
        // invariants of this state: clone == same cache; getters on a clone == fresh-state getters
        {
            let c = st.clone();
            if c.verif_cache_snapshot() != keys[id] {
                viol(format!("state{id}|clone"), "clone() does not carry an identical cache".into());
            }
            let mut g = getters(&c);
            g.extend(extra(&c));
            for (k, ((nm, val), (_, r))) in g.iter().zip(ref_getters.iter()).enumerate() {
                getter_checks += 1;
                let ok = (val.is_nan() && r.is_nan()) || close(*val, *r, 1e-12 * r.abs().max(1e-300));
                if !ok {
                    viol(format!("getter|{nm}{k}|after={}", trace_string(&meta, &ops, id)), format!("{nm} = {val:e} after history, fresh state gives {r:e}"));
                }
            }
            let up = st.update_temperature(st.temperature).unwrap();
            if !up.verif_cache_snapshot().is_empty() {
                viol(format!("state{id}|update_temperature"), "update_temperature returns a state with a non-empty cache".into());
            }
        }
        for (k, o) in ops.iter().enumerate() {
            let nst = st.clone();
            let val = nst.verif_partial_derivative(o.0, o.1, o.2);
            transitions += 1;
            let dev = (val - refv[k]).abs() / refv[k].abs().max(1e-300);
            if dev.is_finite() {
                worst = worst.max(dev);
            }
            if !((val.is_nan() && refv[k].is_nan()) || close(val, refv[k], 0.0)) {
                viol(format!("return|{}|after={}", op_name(o), trace_string(&meta, &ops, id)), format!("{} returned {val:e} after this history, {:e} on a fresh state", op_name(o), refv[k]));
            }
            let key = nst.verif_cache_snapshot();
            for (kk, b) in &key {
                bits.entry(kk.clone()).or_default().insert(*b);
                let cv = f64::from_bits(*b);
                match ref_key.get(kk) {
                    Some(r) => {
                        if !((cv.is_nan() && r.is_nan()) || close(cv, *r, floor_of(kk, t, v, ntot))) {
                            viol(format!("cache|{kk}|op={}|after={}", op_name(o), trace_string(&meta, &ops, id)), format!("cache[{kk}] = {cv:e} but the fresh-state value of that key is {r:e}"));
                        }
                    }
                    None => viol(format!("cache|{kk}|unexpected"), format!("cache holds a key no operation requests: {kk}")),
                }
            }
            if !seen.contains_key(&key) {
                if keys.len() >= state_cap {
                    capped = true;
                    continue;
                }
                let nid = keys.len();
                seen.insert(key.clone(), nid);
                keys.push(key);
                meta.push((id, k, depth + 1));
                frontier.push_back((nst, nid));
            }
        }
    }
    // conformance: replay the shortest trace of every discovered state on a fresh State
    let mut validated = 0usize;
    for id in 0..keys.len() {
        let mut tr = vec![];
        let mut cur = id;
        while meta[cur].0 != usize::MAX {
            tr.push(meta[cur].1);
            cur = meta[cur].0;
        }
        tr.reverse();
        let s = fresh();
        for &k in &tr {
            s.verif_partial_derivative(ops[k].0, ops[k].1, ops[k].2);
        }
        if s.verif_cache_snapshot() == keys[id] {
            validated += 1;
        } else {
            viol(format!("replay|state{id}"), format!("replaying trace {:?} on a fresh state does not reproduce the stored cache", tr.iter().map(|&k| op_name(&ops[k])).collect::<Vec<_>>()));
        }
    }
    // order-dependent pairs (for the loom harness): final cache after A;B differs bitwise from B;A
    let mut pairs = vec![];
    for a in 0..ops.len() {
        for b in (a + 1)..ops.len() {
            let s1 = fresh();
            s1.verif_partial_derivative(ops[a].0, ops[a].1, ops[a].2);
            s1.verif_partial_derivative(ops[b].0, ops[b].1, ops[b].2);
            let s2 = fresh();
            s2.verif_partial_derivative(ops[b].0, ops[b].1, ops[b].2);
            s2.verif_partial_derivative(ops[a].0, ops[a].1, ops[a].2);
            if s1.verif_cache_snapshot() != s2.verif_cache_snapshot() {
                pairs.push((ops[a], ops[b]));
            }
        }
    }
    let mut sample_traces = vec![];
    for id in [keys.len() / 3, keys.len() / 2, keys.len() - 1] {
        sample_traces.push(json!({"model": name, "state": id, "depth": meta[id].2, "trace": trace_string(&meta, &ops, id), "cached_keys": keys[id].iter().map(|k| k.0.clone()).collect::<Vec<_>>()}));
    }
    BfsResult {
        name: name.to_string(),
        states: keys.len(),
        transitions,
        max_depth,
        validated,
        getter_checks,
        worst_dev: worst,
        multi_bit_keys: bits.iter().filter(|(_, b)| b.len() > 1).map(|(k, b)| format!("{k}:{}", b.len())).collect(),
        violations,
        sample_traces,
        order_dependent_pairs: pairs,
        capped,
    }
}

fn trace_string(meta: &[(usize, usize, usize)], ops: &[Op], id: usize) -> String {
    let mut tr = vec![];
    let mut cur = id;
    while meta[cur].0 != usize::MAX {
        tr.push(op_name(&ops[meta[cur].1]));
        cur = meta[cur].0;
    }
    tr.reverse();
    format!("[{}]", tr.join(";"))
}

// ---------------------------------------------------------------------------------------

fn pr_model(n: usize) -> Model {
    use feos::ResidualModel;
    use feos_core::cubic::{PengRobinson, PengRobinsonParameters};
    let tc = [369.8, 425.2, 507.6];
    let pc = [41.9e5, 38.0e5, 30.2e5];
    let om = [0.153, 0.199, 0.299];
    let mw = [44.1, 58.1, 86.2];
    Arc::new(ResidualModel::PengRobinson(PengRobinson::new(Arc::new(PengRobinsonParameters::new_simple(&tc[..n], &pc[..n], &om[..n], &mw[..n]).unwrap()))))
}

const PR2: (f64, f64, [f64; 2]) = (300.0, 1.6e6, [0.3, 0.7]);
// 350 K, 1e-4 m^3, (0.4, 0.6) mol in reduced units: a state where by-products of different dual
// number types differ in their last bits (needed for a non-vacuous loom oracle)
const PC2: (f64, f64, [f64; 2]) = (350.0, 1e26, [0.4 * 6.02214076e23, 0.6 * 6.02214076e23]);

fn run_loom(tier: Tier, pr_pairs: &[(Op, Op)], pc_pairs: &[(Op, Op)], ctx: &mut Ctx, rec: &mut Rec) -> Value {
    // build the spec list: colliding (order-dependent) pairs first
    let mut specs = vec![];
    let mk = |model: &str, st: (f64, f64, [f64; 2]), threads: Vec<Vec<Value>>, pb: Option<usize>| {
        json!({"model": model, "t": st.0, "v": st.1, "n": st.2, "threads": threads, "preemption_bound": pb, "max_branches": 100000})
    };
    let a0 = Op(0, Derivative::DV, Derivative::DV);
    let npairs = 8;
    for (model, st, pairs) in [("pr2", PR2, pr_pairs), ("pcsaft_cross2", PC2, pc_pairs)] {
        for (a, b) in pairs.iter().take(npairs) {
            // 2 threads x 2 ops, unbounded
            specs.push(mk(model, st, vec![vec![op_json(a), op_json(&a0)], vec![op_json(b), op_json(a)]], None));
        }
        if let Some((a, b)) = pairs.first() {
            // 3 threads: the colliding pair plus a thread that clones mid-flight and works on the clone
            let third = vec![json!([9, 0, 0]), op_json(b), op_json(a)];
            specs.push(mk(model, st, vec![vec![op_json(a), op_json(b)], vec![op_json(b), op_json(a)], third], tier.pick(Some(3), None)));
        }
        if let Some((a, b)) = pairs.get(1) {
            let c = pairs.last().map(|p| p.0).unwrap_or(*a);
            specs.push(mk(model, st, vec![vec![op_json(a)], vec![op_json(b)], vec![op_json(&c), op_json(a)]], tier.pick(Some(3), None)));
        }
        if tier == Tier::Thorough {
            // deeper bodies: 2 threads x 3 requests (unbounded), 4 threads x 1-2 requests incl. a clone (preemption bound 3)
            for (a, b) in pairs.iter().take(3) {
                let c = pairs.last().map(|p| p.1).unwrap_or(*b);
                specs.push(mk(model, st, vec![vec![op_json(a), op_json(b), op_json(&c)], vec![op_json(&c), op_json(b), op_json(a)]], None));
            }
            if let Some((a, b)) = pairs.first() {
                let c = pairs.last().map(|p| p.0).unwrap_or(*a);
                specs.push(mk(model, st, vec![vec![op_json(a)], vec![op_json(b)], vec![op_json(&c), op_json(a)], vec![json!([9, 0, 0]), op_json(b)]], Some(3)));
            }
        }
    }
    let spec_path = "/verif/target/c11_loom_spec.json";
    std::fs::write(spec_path, serde_json::to_string_pretty(&specs).unwrap()).unwrap();
    let bin = "/verif/target/loom/release/fvc-loom";
    let mut all = vec![];
    for idx in 0..specs.len() {
        let out = std::process::Command::new(bin).arg(spec_path).arg(format!("{idx}")).output();
        let out = match out {
            Ok(o) => o,
            Err(e) => {
                ctx.extra("loom_error", json!(format!("cannot run {bin}: {e}")));
                return json!(null);
            }
        };
        let txt = String::from_utf8_lossy(&out.stdout).to_string();
        match txt.lines().last().and_then(|l| serde_json::from_str::<Value>(l).ok()).and_then(|v| v.as_array().and_then(|a| a.first().cloned())) {
            Some(v) => all.push(v),
            None => {
                ctx.extra("loom_error", json!(format!("loom body {idx}: exit {:?}, no result; stderr: {}", out.status.code(), String::from_utf8_lossy(&out.stderr).chars().take(400).collect::<String>())));
                return json!(null);
            }
        }
    }
    let res = Value::Array(all);
    let mut total_exec = 0u64;
    let mut max_outcomes = 0u64;
    for (k, r) in res.as_array().unwrap().iter().enumerate() {
        let ex = r["executions"].as_u64().unwrap_or(0);
        total_exec += ex;
        max_outcomes = max_outcomes.max(r["distinct_final_caches"].as_u64().unwrap_or(0));
        rec.evaluations += ex;
        let key = format!("loom|{}|{}", specs[k]["model"].as_str().unwrap(), r["threads"]);
        for v in r["violations"].as_array().unwrap() {
            rec.violations.push(Violation { key: format!("{key}|oracle"), case_key: "loom".into(), detail: format!("{} (spec {}: {})", v.as_str().unwrap_or("?"), k, specs[k]) });
        }
        if ex > 0 && r["violations"].as_array().unwrap().is_empty() {
            rec.nontrivial.insert(key);
        }
    }
    println!("   loom: bodies={} executions={} max distinct final caches={}", specs.len(), total_exec, max_outcomes);
    for r in res.as_array().unwrap() {
        println!("      {} pb={} -> executions={} final caches={} return vectors={}", r["threads"], r["preemption_bound"], r["executions"], r["distinct_final_caches"], r["distinct_return_vectors"]);
    }
    json!({"loom_executions": total_exec, "loom_max_distinct_final_caches": max_outcomes, "loom_bodies": res})
}

fn par_pure_cases(tier: Tier) -> Vec<(String, Model, usize, usize, usize)> {
    let models: Vec<(String, Model)> = vec![
        ("pcsaft:propane".into(), Arc::new(feos::ResidualModel::PcSaft(feos::pcsaft::PcSaft::new(zoo::pcsaft_params(&[(&["propane"], "gross2001")]))))),
        ("pr:1".into(), pr_model(1)),
    ];
    let mut v = vec![];
    let nmax = tier.pick(7, 13);
    for (id, m) in models {
        for np in 3..=nmax {
            for threads in [1usize, 2, 3, 4, 8, 16] {
                for chunk in 1..np {
                    v.push((id.clone(), m.clone(), np, threads, chunk));
                }
            }
        }
    }
    v
}

fn par_pure_case(c: &(String, Model, usize, usize, usize), rec: &mut Rec) {
    let (_, eos, np, threads, chunk) = c;
    let tc = State::critical_point(eos, None, None, Default::default()).unwrap().temperature;
    let seq = PhaseDiagram::pure(eos, 0.5 * tc, *np, None, Default::default()).unwrap();
    let pool = rayon::ThreadPoolBuilder::new().num_threads(*threads).build().unwrap();
    let par = PhaseDiagram::par_pure(eos, 0.5 * tc, *np, *chunk, pool, None, Default::default()).unwrap();
    rec.require("par_pure", "len", par.states.len() == seq.states.len() && par.states.len() == *np, || format!("par {} vs seq {} states (npoints {np})", par.states.len(), seq.states.len()));
    let rel = |a: f64, b: f64| (a - b).abs() / b.abs().max(1e-300);
    for (k, (a, b)) in par.states.iter().zip(seq.states.iter()).enumerate() {
        let e = rel(a.vapor().pressure(Contributions::Total).to_reduced(), b.vapor().pressure(Contributions::Total).to_reduced())
            .max(rel(a.vapor().temperature.to_reduced(), b.vapor().temperature.to_reduced()))
            .max(rel(a.liquid().density.to_reduced(), b.liquid().density.to_reduced()))
            .max(rel(a.vapor().density.to_reduced(), b.vapor().density.to_reduced()));
        rec.check("par_pure", &format!("point{k}"), e / 1e-8, true, || format!("point {k}: parallel and sequential diagram differ by {e:e} (relative)"));
        if k + 1 < par.states.len() {
            if let Ok(st) = PhaseEquilibrium::pure(eos, a.vapor().temperature, None, Default::default()) {
                let e = rel(a.vapor().pressure(Contributions::Total).to_reduced(), st.vapor().pressure(Contributions::Total).to_reduced());
                rec.check("par_pure_standalone", &format!("point{k}"), e / 1e-8, true, || format!("point {k}: differs from the stand-alone solve by {e:e}"));
            }
        }
    }
    // order: strictly increasing temperature
    let mono = par.states.windows(2).all(|w| w[0].vapor().temperature < w[1].vapor().temperature);
    rec.require("par_pure", "order", mono, || "states are not in increasing temperature order".into());
}

pub fn run(ctx: &mut Ctx) {
    ctx.level = "model_checking";
    let tier = ctx.tier;
    // ---- E1: BFS
    let none = |_: &State<feos::ResidualModel>| Vec::<(&'static str, f64)>::new();
    let pc2: Model = Arc::new(feos::ResidualModel::PcSaft(feos::pcsaft::PcSaft::new(zoo::pcsaft_params(&[(&["methanol", "water"], "gross2002")]))));
    let mkstate = |eos: &Model, t: f64, v: f64, n: &[f64]| {
        let eos = eos.clone();
        let n = Array1::from_vec(n.to_vec());
        move || State::new_nvt(&eos, Temperature::from_reduced(t), Volume::from_reduced(v), &Moles::from_reduced(n.clone())).unwrap()
    };
    let cap = 2_000_000usize;
    let mut results: Vec<BfsResult> = vec![];
    let replaying = ctx.replay_case.is_some();
    std::thread::scope(|sc| {
        let mut hs = vec![];
        let pr1 = pr_model(1);
        let pr2 = pr_model(2);
        let pr3 = pr_model(3);
        let f1 = mkstate(&pr1, 300.0, 8e5, &[1.0]);
        let f2 = mkstate(&pr2, PR2.0, PR2.1, &PR2.2);
        let f3 = mkstate(&pr3, 320.0, 2.5e6, &[0.3, 0.5, 0.2]);
        let fc = mkstate(&pc2, PC2.0, PC2.1, &PC2.2);
        hs.push(sc.spawn(move || bfs("pr:1", &f1, 1, &none, cap)));
        hs.push(sc.spawn(move || bfs("pr:2", &f2, 2, &none, cap)));
        hs.push(sc.spawn(move || bfs("pcsaft:methanol+water", &fc, 2, &none, cap)));
        if tier == Tier::Thorough {
            hs.push(sc.spawn(move || bfs("pr:3", &f3, 3, &none, cap)));
            // total-property getters layered on the residual cache
            let recs = zoo::dippr_records();
            let entry = zoo::zoo(Tier::Thorough).into_iter().find(|e| e.id == "pcsaft:propane+butane").unwrap();
            let full: FullModel = zoo::with_ideal_gas(&entry, &recs).unwrap();
            hs.push(sc.spawn(move || {
                let fresh = || State::new_nvt(&full, Temperature::from_reduced(330.0), Volume::from_reduced(3e3), &Moles::from_reduced(arr1(&[0.4, 0.6]))).unwrap();
                let extra = |s: &State<_>| {
                    vec![
                        ("entropy", s.entropy(Contributions::Total).to_reduced()),
                        ("enthalpy", s.enthalpy(Contributions::Total).to_reduced()),
                        ("cp", s.molar_isobaric_heat_capacity(Contributions::Total).to_reduced()),
                        ("cv", s.molar_isochoric_heat_capacity(Contributions::Total).to_reduced()),
                        ("speed_of_sound", s.speed_of_sound().to_reduced()),
                        ("joule_thomson", s.joule_thomson().to_reduced()),
                        ("gibbs", s.gibbs_energy(Contributions::Total).to_reduced()),
                        ("dc_v_dt", s.dc_v_dt(Contributions::Total).to_reduced()),
                    ]
                };
                bfs("dippr+pcsaft:propane+butane", &fresh, 2, &extra, cap)
            }));
        }
        for h in hs {
            results.push(h.join().unwrap());
        }
    });
    let mut rec = Rec::new("C11");
    let (mut states, mut transitions, mut validated) = (0usize, 0usize, 0usize);
    let mut samples = vec![];
    let mut bfs_summ = vec![];
    for r in &results {
        states += r.states;
        transitions += r.transitions;
        validated += r.validated;
        rec.evaluations += r.transitions as u64 + r.getter_checks as u64;
        rec.violations.extend(r.violations.iter().cloned());
        samples.extend(r.sample_traces.iter().cloned());
        if r.capped {
            ctx.exhaustive = false;
        }
        bfs_summ.push(json!({"model": r.name, "states": r.states, "transitions": r.transitions, "max_depth": r.max_depth, "traces_validated": r.validated, "getter_checks": r.getter_checks,
            "worst_relative_deviation_of_returned_value": r.worst_dev, "keys_with_more_than_one_bit_pattern": r.multi_bit_keys, "order_dependent_pairs": r.order_dependent_pairs.len(), "closure_reached": !r.capped}));
        println!("   bfs {}: states={} transitions={} depth={} validated={} getter_checks={} worst_dev={:.1e} order-dependent pairs={} multi-bit keys={}", r.name, r.states, r.transitions, r.max_depth, r.validated, r.getter_checks, r.worst_dev, r.order_dependent_pairs.len(), r.multi_bit_keys.len());
    }
    for k in 0..states.min(100000) {
        // distinct non-trivial = discovered states (each is a distinct cache content); keep the set small
        if k < 64 {
            rec.nontrivial.insert(format!("state{k}"));
        }
    }
    // ---- E2: loom
    let pr_pairs = results.iter().find(|r| r.name == "pr:2").map(|r| r.order_dependent_pairs.clone()).unwrap_or_default();
    let pc_pairs = results.iter().find(|r| r.name == "pcsaft:methanol+water").map(|r| r.order_dependent_pairs.clone()).unwrap_or_default();
    let mut vacuous = false;
    if !replaying {
        let loom = run_loom(tier, &pr_pairs, &pc_pairs, ctx, &mut rec);
        if loom.is_null() {
            vacuous = true;
        } else {
            if loom["loom_max_distinct_final_caches"].as_u64().unwrap_or(0) < 2 {
                vacuous = true;
                ctx.extra("loom_error", json!("loom exploration saw a single final cache in every body: nothing collided (vacuous)"));
            }
            for (k, v) in loom.as_object().unwrap() {
                ctx.extra(k, v.clone());
            }
        }
    }
    ctx.extra("bfs", json!(bfs_summ));
    ctx.extra("states", json!(states));
    ctx.extra("transitions", json!(transitions));
    ctx.extra("traces_validated_against_impl", json!(validated));
    ctx.extra("preemption_bound", json!(tier.pick("unbounded for 2-thread bodies, 3 for 3-thread bodies", "unbounded")));
    ctx.extra("schedule_control", json!("loom: exhaustive within bound on the real Mutex<Cache>; rayon (par_pure): configurations enumerated, schedule inside the pool uncontrolled"));
    ctx.extra("order_dependent_pairs_pr2", json!(pr_pairs.iter().map(|(a, b)| format!("{} || {}", op_name(a), op_name(b))).collect::<Vec<_>>()));
    rec.samples = samples;
    ctx.cases_total += results.len();
    ctx.cases_run += results.len();
    let r2 = rec.clone();
    ctx.total = r2;
    if vacuous {
        // machinery failure, not a verdict
        ctx.machinery_error = Some(format!("loom stage failed or was vacuous: {}", ctx.extra.get("loom_error").cloned().unwrap_or(json!("?"))));
    }
    // ---- E3: par_pure configurations
    let cases = par_pure_cases(tier);
    ctx.extra("par_pure_configurations", json!(cases.len()));
    ctx.run(&cases, |c| format!("par_pure|{}|n={}|threads={}|chunk={}", c.0, c.2, c.3, c.4), par_pure_case);
    ctx.rule = "E1: breadth-first search over the real State: transitions = one atomic cache request per derivative key (incl. both argument orders of mixed keys) applied to a clone of the dequeued state; canonical key = sorted (cache key, value bits); run to closure; invariant in every state: returned value, every cached value and every public getter equal the fresh-state value; every discovered state's shortest trace is replayed on a fresh State (traces_validated_against_impl). E2: loom explores all interleavings (DPOR) of 2-3 threads issuing order-dependent request pairs (and clone) against one shared State whose Mutex<Cache> is loom's. E3: every (threads, chunksize, npoints) of par_pure against pure and the stand-alone solve. distinct_nontrivial counts loom bodies and par_pure comparisons that reached the oracle".into();
    ctx.assume("loom models the Mutex as the only synchronisation on the cache; safe Rust excludes data races on the map (it is only reachable through the guard)");
    ctx.assume("rayon's work-stealing schedule is not controlled; chunks share only &Arc<E>");
}
