//! Finite model zoo (DESIGN §3.1). Every entry is wrapped in `feos::ResidualModel`, so all
//! checks are monomorphised once; C08 separately checks wrapper == bare model.
use crate::engine::Tier;
use feos::epcsaft::{ElectrolytePcSaft, ElectrolytePcSaftOptions, ElectrolytePcSaftParameters, ElectrolytePcSaftVariants};
use feos::gc_pcsaft::{GcPcSaft, GcPcSaftEosParameters, GcPcSaftFunctional, GcPcSaftFunctionalParameters};
use feos::hard_sphere::{FMTFunctional, FMTVersion};
use feos::ideal_gas::{Dippr, DipprRecord, IdealGasModel, Joback};
use feos::pcsaft::{DQVariants, PcSaft, PcSaftBinaryRecord, PcSaftFunctional, PcSaftOptions, PcSaftParameters, PcSaftRecord};
use feos::pets::{Pets, PetsFunctional, PetsParameters, PetsRecord};
use feos::saftvrmie::{SaftVRMie, SaftVRMieParameters};
use feos::saftvrqmie::{SaftVRQMie, SaftVRQMieFunctional, SaftVRQMieOptions, SaftVRQMieParameters};
use feos::uvtheory::{Perturbation, UVTheory, UVTheoryOptions, UVTheoryParameters, UVTheoryRecord};
use feos::ResidualModel;
use feos_core::cubic::{PengRobinson, PengRobinsonParameters};
use feos_core::parameter::{Identifier, IdentifierOption, Parameter, ParameterHetero, PureRecord};
use feos_core::EquationOfState;
use ndarray::{arr1, Array1, Array2};
use std::sync::Arc;

pub const REPO: &str = "/repo";
pub fn pfile(rel: &str) -> String {
    format!("{REPO}/parameters/{rel}")
}

pub type Model = Arc<ResidualModel>;
pub type FullModel = Arc<EquationOfState<IdealGasModel, ResidualModel>>;

#[derive(Clone)]
pub struct Entry {
    pub id: String,
    pub eos: Model,
    pub n: usize,
    /// temperature scale (approximate critical temperature of the first component), K
    pub tref: f64,
    pub quick: bool,
    /// contains ions (no virial coefficients)
    pub electrolyte: bool,
    /// is a Helmholtz energy functional evaluated as bulk model
    pub functional: bool,
    /// names for an ideal-gas model (poling2000), if available for all components
    pub ig_names: Option<Vec<String>>,
    /// hard-sphere diameters for entries whose density scale is a packing fraction (FMT)
    pub hs_sigma: Option<Vec<f64>>,
}

impl Entry {
    pub fn compositions(&self, tier: Tier) -> Vec<Array1<f64>> {
        match self.n {
            1 => vec![arr1(&[1.0])],
            2 => {
                let xs: &[f64] = tier.pick(&[0.02, 0.3, 0.98][..], &[1e-6, 0.02, 0.1, 0.3, 0.5, 0.7, 0.9, 0.98, 1.0 - 1e-6][..]);
                xs.iter().map(|&x| arr1(&[x, 1.0 - x])).collect()
            }
            3 => {
                let v = vec![arr1(&[0.3, 0.5, 0.2]), arr1(&[0.9, 0.05, 0.05]), arr1(&[0.05, 0.05, 0.9]), arr1(&[0.05, 0.9, 0.05]), arr1(&[1.0 / 3.0, 1.0 / 3.0, 1.0 / 3.0]), arr1(&[0.6, 0.399999, 1e-6]), arr1(&[0.2, 0.2, 0.6])];
                match tier {
                    Tier::Quick => v[..3].to_vec(),
                    Tier::Thorough => v,
                }
            }
            n => vec![Array1::from_elem(n, 1.0 / n as f64)],
        }
    }
    /// electrolyte mixtures need charge-neutral compositions
    pub fn compositions_for(&self, tier: Tier) -> Vec<Array1<f64>> {
        if self.electrolyte {
            match self.n {
                3 => vec![arr1(&[0.96, 0.02, 0.02])],
                4 => vec![arr1(&[0.76, 0.2, 0.02, 0.02])],
                _ => self.compositions(tier),
            }
        } else {
            self.compositions(tier)
        }
    }
}

fn e(id: &str, eos: ResidualModel, n: usize, tref: f64, quick: bool) -> Entry {
    Entry { id: id.to_string(), eos: Arc::new(eos), n, tref, quick, electrolyte: false, functional: false, ig_names: None, hs_sigma: None }
}

pub fn pcsaft_params(spec: &[(&[&str], &str)]) -> Arc<PcSaftParameters> {
    let input: Vec<(Vec<&str>, String)> = spec.iter().map(|(n, f)| (n.to_vec(), pfile(&format!("pcsaft/{f}.json")))).collect();
    Arc::new(PcSaftParameters::from_multiple_json(&input, None, IdentifierOption::Name).unwrap())
}
pub fn pcsaft_with_kij(p: &Arc<PcSaftParameters>, kij: f64) -> Arc<PcSaftParameters> {
    let (recs, _) = p.records();
    let n = recs.len();
    let b = Array2::from_shape_fn((n, n), |(i, j)| if i == j { PcSaftBinaryRecord::default() } else { PcSaftBinaryRecord::new(Some(kij * (1.0 + 0.5 * (i + j) as f64)), None, None) });
    Arc::new(PcSaftParameters::from_records(recs.to_vec(), Some(b)).unwrap())
}
pub fn test_params(names: &[&str]) -> Arc<PcSaftParameters> {
    Arc::new(PcSaftParameters::from_json(names.to_vec(), format!("{REPO}/tests/pcsaft/test_parameters.json"), None, IdentifierOption::Name).unwrap())
}

pub fn pr_params(n: usize, kij: f64) -> Arc<PengRobinsonParameters> {
    let tc = [369.8, 425.2, 507.6];
    let pc = [41.9e5, 38.0e5, 30.2e5];
    let om = [0.153, 0.199, 0.299];
    let mw = [44.1, 58.1, 86.2];
    let p = PengRobinsonParameters::new_simple(&tc[..n], &pc[..n], &om[..n], &mw[..n]).unwrap();
    if kij == 0.0 {
        return Arc::new(p);
    }
    let (recs, _) = p.records();
    let k = Array2::from_shape_fn((n, n), |(i, j)| if i == j { 0.0 } else { kij * (1.0 + 0.5 * (i + j) as f64) });
    Arc::new(PengRobinsonParameters::from_records(recs.to_vec(), Some(k)).unwrap())
}

pub fn uv_records() -> Vec<PureRecord<UVTheoryRecord>> {
    vec![
        PureRecord::new(Identifier::default(), 1.0, UVTheoryRecord::new(12.0, 6.0, 3.7, 150.0)),
        PureRecord::new(Identifier::default(), 1.0, UVTheoryRecord::new(24.0, 6.0, 3.3, 120.0)),
    ]
}
pub fn pets_records() -> Vec<PureRecord<PetsRecord>> {
    vec![
        PureRecord::new(Identifier::default(), 1.0, PetsRecord::new(3.7, 120.0, None, None, None)),
        PureRecord::new(Identifier::default(), 1.0, PetsRecord::new(3.3, 150.0, None, None, None)),
    ]
}

pub fn gc_eos(names: &[&str]) -> GcPcSaft {
    let p = GcPcSaftEosParameters::from_json_segments(names, pfile("pcsaft/gc_substances.json"), pfile("pcsaft/sauer2014_hetero.json"), None, IdentifierOption::Name).unwrap();
    GcPcSaft::new(Arc::new(p))
}
pub fn gc_func(names: &[&str]) -> GcPcSaftFunctional {
    let p = GcPcSaftFunctionalParameters::from_json_segments(names, pfile("pcsaft/gc_substances.json"), pfile("pcsaft/sauer2014_hetero.json"), None, IdentifierOption::Name).unwrap();
    GcPcSaftFunctional::new(Arc::new(p))
}
pub fn vrmie(names: &[&str]) -> Arc<SaftVRMieParameters> {
    Arc::new(SaftVRMieParameters::from_json(names.to_vec(), pfile("saftvrmie/lafitte2013.json"), None, IdentifierOption::Name).unwrap())
}
pub fn vrq(names: &[&str], file: &str, binary: Option<&str>) -> Arc<SaftVRQMieParameters> {
    Arc::new(SaftVRQMieParameters::from_json(names.to_vec(), pfile(&format!("saftvrqmie/{file}.json")), binary.map(|b| pfile(&format!("saftvrqmie/{b}.json"))), IdentifierOption::Name).unwrap())
}
pub fn epc(names: &[&str]) -> Arc<ElectrolytePcSaftParameters> {
    Arc::new(
        ElectrolytePcSaftParameters::from_json(names.to_vec(), pfile("epcsaft/held2014_w_permittivity_added.json"), Some(pfile("epcsaft/held2014_binary.json")), IdentifierOption::Name).unwrap(),
    )
}

/// The zoo, ordered simplest first.
pub fn zoo(tier: Tier) -> Vec<Entry> {
    let mut z: Vec<Entry> = vec![];
    // ---- Peng-Robinson
    z.push(e("pr:1", ResidualModel::PengRobinson(PengRobinson::new(pr_params(1, 0.0))), 1, 370.0, true));
    z.push(e("pr:2", ResidualModel::PengRobinson(PengRobinson::new(pr_params(2, 0.0))), 2, 370.0, false));
    z.push(e("pr:2k", ResidualModel::PengRobinson(PengRobinson::new(pr_params(2, 0.05))), 2, 370.0, true));
    z.push(e("pr:3k", ResidualModel::PengRobinson(PengRobinson::new(pr_params(3, 0.03))), 3, 370.0, false));
    // ---- PC-SAFT
    let mut pc = |id: &str, p: Arc<PcSaftParameters>, tref: f64, quick: bool, ig: Option<Vec<&str>>| {
        let n = p.records().0.len();
        let mut en = e(&format!("pcsaft:{id}"), ResidualModel::PcSaft(PcSaft::new(p)), n, tref, quick);
        en.ig_names = ig.map(|v| v.iter().map(|s| s.to_string()).collect());
        z.push(en);
    };
    pc("propane", pcsaft_params(&[(&["propane"], "gross2001")]), 370.0, true, Some(vec!["propane"]));
    pc("propane+butane", pcsaft_params(&[(&["propane", "butane"], "gross2001")]), 370.0, false, Some(vec!["propane", "butane"]));
    pc("propane+hexane:k", pcsaft_with_kij(&pcsaft_params(&[(&["propane", "hexane"], "gross2001")]), 0.03), 370.0, true, Some(vec!["propane", "hexane"]));
    pc("methane+butane+octane:k", pcsaft_with_kij(&pcsaft_params(&[(&["methane", "butane", "octane"], "gross2001")]), 0.02), 190.0, false, None);
    pc("water", pcsaft_params(&[(&["water"], "gross2002")]), 647.0, false, Some(vec!["water"]));
    pc("methanol", pcsaft_params(&[(&["methanol"], "gross2002")]), 512.0, true, Some(vec!["methanol"]));
    pc("methanol+propane(induced-none)", pcsaft_params(&[(&["methanol"], "gross2002"), (&["propane"], "gross2001")]), 512.0, false, None);
    pc("methanol+water(cross)", pcsaft_params(&[(&["methanol", "water"], "gross2002")]), 512.0, true, Some(vec!["methanol", "water"]));
    pc("methanol+water+ethanol(cross3):k", pcsaft_with_kij(&pcsaft_params(&[(&["methanol", "water", "ethanol"], "gross2002")]), -0.02), 512.0, true, None);
    pc("acetone(dd)", pcsaft_params(&[(&["acetone"], "gross2006")]), 508.0, false, Some(vec!["acetone"]));
    pc("co2(qq)", pcsaft_params(&[(&["carbon dioxide"], "gross2005_fit")]), 304.0, false, Some(vec!["carbon dioxide"]));
    pc("acetone+co2(dd,qq,dq)", pcsaft_params(&[(&["acetone"], "gross2006"), (&["carbon dioxide"], "gross2005_fit")]), 508.0, true, None);
    pc("acetone+co2+methanol(polar+assoc):k", pcsaft_with_kij(&pcsaft_params(&[(&["acetone"], "gross2006"), (&["carbon dioxide"], "gross2005_fit"), (&["methanol"], "gross2002")]), 0.04), 508.0, false, None);
    // induced association: solvation records of the test parameter file (water_np has only sites)
    {
        // a record with association sites but no self-association parameters + an associating one
        let w = pcsaft_params(&[(&["water"], "gross2002")]);
        let (wr, _) = w.records();
        let acetone_like = PureRecord::new(
            Identifier::new(None, Some("solvating"), None, None, None, None),
            58.0,
            PcSaftRecord::new(2.7447, 3.2742, 232.99, Some(2.88), None, None, None, Some(0.0), Some(1.0), None, None, None, None),
        );
        let recs = vec![wr[0].clone(), acetone_like];
        let b = PcSaftBinaryRecord::new(Some(-0.05), Some(0.03), Some(1800.0));
        if let Ok(p) = PcSaftParameters::new_binary(recs, Some(b)) {
            pc("water+solvating(induced)", Arc::new(p), 647.0, true, None);
        }
    }
    // association schemes the shipped files do not contain: a self-complementary C site next to an A/B pair (the
    // `(1, 1, false)` arm of the generic association term), unequal site counts, a pure C-site component
    {
        let rec = |name: &str, eps_ab: f64, na: Option<f64>, nb: Option<f64>, nc: Option<f64>| PureRecord::new(Identifier::new(None, Some(name), None, None, None, None), 46.0, PcSaftRecord::new(1.9, 3.3, 205.0, None, None, Some(0.03), Some(eps_ab), na, nb, nc, None, None, None));
        let alcohol = rec("alcohol(2B)", 2600.0, Some(1.0), Some(1.0), None);
        let acid = rec("acid(1C)", 3000.0, None, None, Some(1.0));
        let three_b = rec("amine(3B)", 1500.0, Some(2.0), Some(1.0), None);
        pc("alcohol(2B)+acid(1C)", Arc::new(PcSaftParameters::new_binary(vec![alcohol.clone(), acid.clone()], None).unwrap()), 700.0, true, None);
        pc("acid(1C)", Arc::new(PcSaftParameters::new_pure(acid.clone()).unwrap()), 700.0, false, None);
        pc("amine(3B)+alcohol(2B)", Arc::new(PcSaftParameters::new_binary(vec![three_b, alcohol], None).unwrap()), 700.0, false, None);
    }
    // DQ variant
    {
        let p = pcsaft_params(&[(&["acetone"], "gross2006"), (&["carbon dioxide"], "gross2005_fit")]);
        let o = PcSaftOptions { dq_variant: DQVariants::DQ44, ..Default::default() };
        z.push(e("pcsaft:acetone+co2:dq44", ResidualModel::PcSaft(PcSaft::with_options(p, o)), 2, 508.0, false));
    }
    // ---- ePC-SAFT
    {
        let mut en = e("epcsaft:water", ResidualModel::ElectrolytePcSaft(ElectrolytePcSaft::new(epc(&["water"]))), 1, 647.0, true);
        en.electrolyte = false;
        z.push(en);
        let mut en = e("epcsaft:water+na+cl", ResidualModel::ElectrolytePcSaft(ElectrolytePcSaft::new(epc(&["water", "sodium ion", "chloride ion"]))), 3, 647.0, true);
        en.electrolyte = true;
        z.push(en);
        let mut en = e("epcsaft:water+k+br", ResidualModel::ElectrolytePcSaft(ElectrolytePcSaft::new(epc(&["water", "potassium ion", "bromide ion"]))), 3, 647.0, false);
        en.electrolyte = true;
        z.push(en);
        let o = ElectrolytePcSaftOptions { epcsaft_variant: ElectrolytePcSaftVariants::Revised, ..Default::default() };
        let en = e("epcsaft:water:revised", ResidualModel::ElectrolytePcSaft(ElectrolytePcSaft::with_options(epc(&["water"]), o)), 1, 647.0, false);
        z.push(en);
    }
    // ---- gc-PC-SAFT
    z.push(e("gcpcsaft:propane", ResidualModel::GcPcSaft(gc_eos(&["propane"])), 1, 370.0, false));
    z.push(e("gcpcsaft:ethanol+propane", ResidualModel::GcPcSaft(gc_eos(&["ethanol", "propane"])), 2, 514.0, true));
    z.push(e("gcpcsaft:1-propanol+ethanol(cross)", ResidualModel::GcPcSaft(gc_eos(&["1-propanol", "ethanol"])), 2, 537.0, false));
    z.push(e("gcpcsaft:methyl propanoate+ethanol(dipolar)", ResidualModel::GcPcSaft(gc_eos(&["methyl propanoate", "ethanol"])), 2, 530.0, false));
    // ---- PeTS
    z.push(e("pets:1", ResidualModel::Pets(Pets::new(Arc::new(PetsParameters::new_pure(pets_records()[0].clone()).unwrap()))), 1, 130.0, false));
    z.push(e("pets:2k", ResidualModel::Pets(Pets::new(Arc::new(PetsParameters::new_binary(pets_records(), Some(0.05.into())).unwrap()))), 2, 130.0, true));
    // ---- uv-theory
    for (nm, pert, q) in [("wca", Perturbation::WeeksChandlerAndersen, true), ("bh", Perturbation::BarkerHenderson, true), ("b3", Perturbation::WeeksChandlerAndersenB3, true)] {
        let p = Arc::new(UVTheoryParameters::new_simple(12.0, 6.0, 3.7, 150.0).unwrap());
        z.push(e(&format!("uv:{nm}:1"), ResidualModel::UVTheory(UVTheory::with_options(p, UVTheoryOptions { max_eta: 0.5, perturbation: pert })), 1, 195.0, q));
        if pert != Perturbation::WeeksChandlerAndersenB3 {
            let p = Arc::new(UVTheoryParameters::new_binary(uv_records(), None).unwrap());
            z.push(e(&format!("uv:{nm}:2"), ResidualModel::UVTheory(UVTheory::with_options(p, UVTheoryOptions { max_eta: 0.5, perturbation: pert })), 2, 195.0, false));
        }
        let p = Arc::new(UVTheoryParameters::new_simple(24.0, 6.0, 3.3, 120.0).unwrap());
        z.push(e(&format!("uv:{nm}:mie24"), ResidualModel::UVTheory(UVTheory::with_options(p, UVTheoryOptions { max_eta: 0.5, perturbation: pert })), 1, 130.0, false));
    }
    // ---- SAFT-VR Mie
    z.push(e("saftvrmie:methane", ResidualModel::SaftVRMie(SaftVRMie::new(vrmie(&["methane"]))), 1, 190.0, true));
    z.push(e("saftvrmie:ethane+propane", ResidualModel::SaftVRMie(SaftVRMie::new(vrmie(&["ethane", "propane"]))), 2, 305.0, false));
    z.push(e("saftvrmie:methanol", ResidualModel::SaftVRMie(SaftVRMie::new(vrmie(&["methanol"]))), 1, 512.0, false));
    z.push(e("saftvrmie:ethane+methanol", ResidualModel::SaftVRMie(SaftVRMie::new(vrmie(&["ethane", "methanol"]))), 2, 305.0, true));
    // two self-associating components: the iterative cross-association path of the SAFT-VR Mie copy of the solver, and a chain + sphere mixture
    z.push(e("saftvrmie:methanol+1-butanol(cross)", ResidualModel::SaftVRMie(SaftVRMie::new(vrmie(&["methanol", "1-butanol"]))), 2, 512.0, true));
    z.push(e("saftvrmie:methane+ethane+propane", ResidualModel::SaftVRMie(SaftVRMie::new(vrmie(&["methane", "ethane", "propane"]))), 3, 300.0, false));
    // ---- SAFT-VRQ Mie
    z.push(e("saftvrqmie:h2:fh1", ResidualModel::SaftVRQMie(SaftVRQMie::new(vrq(&["hydrogen"], "aasen2019", None))), 1, 33.0, true));
    z.push(e("saftvrqmie:h2:fh2", ResidualModel::SaftVRQMie(SaftVRQMie::new(vrq(&["hydrogen"], "aasen2019_fh2", None))), 1, 33.0, false));
    z.push(e("saftvrqmie:ne:fh1", ResidualModel::SaftVRQMie(SaftVRQMie::new(vrq(&["neon"], "aasen2019", None))), 1, 44.0, false));
    z.push(e("saftvrqmie:h2+ne:fh1", ResidualModel::SaftVRQMie(SaftVRQMie::new(vrq(&["hydrogen", "neon"], "aasen2019", Some("aasen2020_binary")))), 2, 33.0, true));
    z.push(e(
        "saftvrqmie:h2+ne:fh1:noadd",
        ResidualModel::SaftVRQMie(SaftVRQMie::with_options(vrq(&["hydrogen", "neon"], "aasen2019", Some("aasen2020_binary")), SaftVRQMieOptions { max_eta: 0.5, inc_nonadd_term: false })),
        2,
        33.0,
        false,
    ));
    // ---- functionals as bulk models
    let f = |id: &str, m: ResidualModel, n: usize, tref: f64, quick: bool| {
        let mut en = e(id, m, n, tref, quick);
        en.functional = true;
        en
    };
    for (nm, v, q) in [("wb", FMTVersion::WhiteBear, true), ("kr", FMTVersion::KierlikRosinberg, false), ("aswb", FMTVersion::AntiSymWhiteBear, false)] {
        z.push(f(&format!("pcsaftfunc:propane:{nm}"), ResidualModel::PcSaftFunctional(PcSaftFunctional::new_full(pcsaft_params(&[(&["propane"], "gross2001")]), v)), 1, 370.0, q));
        z.push(f(
            &format!("pcsaftfunc:methanol+water+ethanol:{nm}"),
            ResidualModel::PcSaftFunctional(PcSaftFunctional::new_full(pcsaft_params(&[(&["methanol", "water", "ethanol"], "gross2002")]), v)),
            3,
            512.0,
            nm == "kr",
        ));
        let mut en = f(&format!("fmt:{nm}:2"), ResidualModel::FmtFunctional(FMTFunctional::new(&arr1(&[3.0, 4.0]), v)), 2, 300.0, nm == "aswb");
        en.hs_sigma = Some(vec![3.0, 4.0]);
        z.push(en);
    }
    z.push(f("pcsaftfunc:water:wb", ResidualModel::PcSaftFunctional(PcSaftFunctional::new(pcsaft_params(&[(&["water"], "gross2002")]))), 1, 647.0, false));
    z.push(f(
        "pcsaftfunc:acetone+co2:wb",
        ResidualModel::PcSaftFunctional(PcSaftFunctional::new(pcsaft_params(&[(&["acetone"], "gross2006"), (&["carbon dioxide"], "gross2005_fit")]))),
        2,
        508.0,
        false,
    ));
    z.push(f("gcpcsaftfunc:ethanol+propane", ResidualModel::GcPcSaftFunctional(gc_func(&["ethanol", "propane"])), 2, 514.0, true));
    z.push(f("gcpcsaftfunc:hexane", ResidualModel::GcPcSaftFunctional(gc_func(&["hexane"])), 1, 507.0, false));
    z.push(f("petsfunc:2k", ResidualModel::PetsFunctional(PetsFunctional::new(Arc::new(PetsParameters::new_binary(pets_records(), Some(0.05.into())).unwrap()))), 2, 130.0, true));
    z.push(f("saftvrqmiefunc:h2+ne", ResidualModel::SaftVRQMieFunctional(SaftVRQMieFunctional::new(vrq(&["hydrogen", "neon"], "aasen2019", Some("aasen2020_binary")))), 2, 33.0, false));
    z.push(f("saftvrqmiefunc:h2", ResidualModel::SaftVRQMieFunctional(SaftVRQMieFunctional::new(vrq(&["hydrogen"], "aasen2019", None))), 1, 33.0, true));

    match tier {
        // the quick tier runs the whole zoo as well (its state lattice is the small one); the `quick` flag only orders the
        // entries simplest-first
        Tier::Quick => {
            let (a, b): (Vec<Entry>, Vec<Entry>) = z.into_iter().partition(|e| e.quick);
            a.into_iter().chain(b).collect()
        }
        Tier::Thorough => z,
    }
}

pub fn dippr_records() -> Vec<PureRecord<DipprRecord>> {
    serde_json::from_reader(std::fs::File::open(pfile("ideal_gas/poling2000.json")).unwrap()).unwrap()
}

/// Attach a DIPPR ideal-gas model (poling2000) to an entry that names its components.
pub fn with_ideal_gas(entry: &Entry, recs: &[PureRecord<DipprRecord>]) -> Option<FullModel> {
    let names = entry.ig_names.as_ref()?;
    let mut v = vec![];
    for n in names {
        v.push(recs.iter().find(|r| r.identifier.name.as_deref() == Some(n.as_str()))?.clone());
    }
    let ig = Dippr::from_records(v, None).ok()?;
    // rebuild the residual (ResidualModel is not Clone): take it from a fresh quick+thorough zoo entry
    let res = Arc::clone(&entry.eos);
    // EquationOfState needs Arc<R>; reuse the same Arc
    Some(Arc::new(EquationOfState::new(Arc::new(IdealGasModel::Dippr(Arc::new(ig))), res)))
}

#[allow(dead_code)]
pub fn joback_for(names: &[&str]) -> Option<Joback> {
    Joback::from_json_segments(names, pfile("pcsaft/gc_substances.json"), pfile("ideal_gas/joback1987.json"), None, IdentifierOption::Name).ok()
}
