//! Shared exploration engine: deterministic, bounded-exhaustive enumeration of a case
//! list on all cores, outcome classification, known-finding matching, evidence and
//! replay files.
use serde_json::{json, Value};
use std::collections::{BTreeMap, BTreeSet};
use std::panic::{catch_unwind, AssertUnwindSafe};
use std::sync::atomic::{AtomicUsize, Ordering};
use std::sync::Mutex;
use std::time::Instant;

#[derive(Clone, Copy, PartialEq, Eq, Debug)]
pub enum Tier {
    Quick,
    Thorough,
}
impl Tier {
    pub fn name(&self) -> &'static str {
        match self {
            Tier::Quick => "quick",
            Tier::Thorough => "thorough",
        }
    }
    pub fn pick<T>(&self, q: T, t: T) -> T {
        match self {
            Tier::Quick => q,
            Tier::Thorough => t,
        }
    }
}

#[derive(Clone, Debug)]
pub struct Violation {
    pub key: String,
    pub case_key: String,
    pub detail: String,
}

/// Per-case (and merged) record of what happened.
#[derive(Default, Clone)]
pub struct Rec {
    pub case_key: String,
    pub evaluations: u64,
    pub nontrivial: BTreeSet<String>,
    pub skipped: BTreeMap<String, u64>,
    pub counters: BTreeMap<String, u64>,
    pub violations: Vec<Violation>,
    /// per oracle: worst err/limit ratio among accepted checks, with its key
    pub worst: BTreeMap<String, (f64, String)>,
    pub samples: Vec<Value>,
    /// observations used by replay to assert determinism
    pub observations: Vec<String>,
}

impl Rec {
    pub fn new(case_key: &str) -> Self {
        Rec { case_key: case_key.to_string(), ..Default::default() }
    }
    /// One oracle evaluation. `ratio` = |error| / acceptance limit (<= 1 holds).
    /// `nontrivial`: the compared quantity is not an identity between zeros.
    pub fn check(&mut self, oracle: &str, sub: &str, ratio: f64, nontrivial: bool, detail: impl FnOnce() -> String) {
        self.evaluations += 1;
        let key = format!("{}|{}|{}", self.case_key, oracle, sub);
        if !(ratio <= 1.0) {
            // NaN ratio is a violation as well
            self.violations.push(Violation { key, case_key: self.case_key.clone(), detail: detail() });
            return;
        }
        if nontrivial {
            self.nontrivial.insert(key.clone());
        }
        let w = self.worst.entry(oracle.to_string()).or_insert((0.0, String::new()));
        if ratio > w.0 {
            *w = (ratio, key);
        }
    }
    /// Boolean oracle.
    pub fn require(&mut self, oracle: &str, sub: &str, ok: bool, detail: impl FnOnce() -> String) {
        self.check(oracle, sub, if ok { 0.0 } else { f64::INFINITY }, ok, detail)
    }
    pub fn skip(&mut self, reason: &str) {
        *self.skipped.entry(reason.to_string()).or_insert(0) += 1;
    }
    pub fn count(&mut self, name: &str) {
        *self.counters.entry(name.to_string()).or_insert(0) += 1;
    }
    pub fn count_n(&mut self, name: &str, n: u64) {
        *self.counters.entry(name.to_string()).or_insert(0) += n;
    }
    pub fn sample(&mut self, v: Value) {
        if self.samples.len() < 4 {
            self.samples.push(v);
        }
    }
    pub fn observe(&mut self, s: String) {
        self.observations.push(s);
    }
    fn merge(&mut self, o: Rec, max_samples: usize) {
        self.evaluations += o.evaluations;
        self.nontrivial.extend(o.nontrivial);
        for (k, v) in o.skipped {
            *self.skipped.entry(k).or_insert(0) += v;
        }
        for (k, v) in o.counters {
            *self.counters.entry(k).or_insert(0) += v;
        }
        self.violations.extend(o.violations);
        for (k, v) in o.worst {
            let w = self.worst.entry(k).or_insert((0.0, String::new()));
            if v.0 > w.0 {
                *w = v;
            }
        }
        for s in o.samples {
            if self.samples.len() < max_samples {
                self.samples.push(s);
            }
        }
        self.observations.extend(o.observations);
    }
}

pub struct Ctx {
    pub id: &'static str,
    pub tier: Tier,
    /// the tier that was asked for on the command line (reported); `tier` is the lattice that is enumerated
    pub label: Tier,
    pub seed: i64,
    pub start: Instant,
    pub replay_case: Option<String>,
    pub total: Rec,
    pub cases_total: usize,
    pub cases_run: usize,
    pub exhaustive: bool,
    pub rule: String,
    pub level: &'static str,
    pub assumptions: Vec<String>,
    pub extra: BTreeMap<String, Value>,
    pub threads: usize,
    /// wall clock cap in seconds for one `run` call; cases beyond it are not started
    pub cap_s: f64,
    /// set when the machinery itself failed (vacuous exploration, engine crash): exit 2, never a verdict
    pub machinery_error: Option<String>,
}

impl Ctx {
    pub fn new(id: &'static str, tier: Tier, seed: i64, replay_case: Option<String>) -> Self {
        let threads = std::env::var("FVC_THREADS").ok().and_then(|s| s.parse().ok()).unwrap_or_else(|| {
            std::thread::available_parallelism().map(|n| n.get()).unwrap_or(4).min(16)
        });
        Ctx {
            id,
            tier,
            label: tier,
            seed,
            start: Instant::now(),
            replay_case,
            total: Rec::default(),
            cases_total: 0,
            cases_run: 0,
            exhaustive: true,
            rule: String::new(),
            level: "exploration",
            assumptions: vec![],
            extra: BTreeMap::new(),
            threads,
            cap_s: tier.pick(300.0, 3600.0),
            machinery_error: None,
        }
    }

    /// Run every case of `cases` (deterministic order, all cores) through `f`.
    /// `key_of` gives the stable case key (used for findings, replays, distinct counting).
    pub fn run<C: Sync>(&mut self, cases: &[C], key_of: impl Fn(&C) -> String + Sync, f: impl Fn(&C, &mut Rec) + Sync) {
        let sel: Vec<usize> = match &self.replay_case {
            Some(k) => (0..cases.len()).filter(|&i| &key_of(&cases[i]) == k).collect(),
            None => (0..cases.len()).collect(),
        };
        self.cases_total += sel.len();
        let next = AtomicUsize::new(0);
        let results: Mutex<Vec<(usize, Rec)>> = Mutex::new(Vec::new());
        let t0 = Instant::now();
        let cap = self.cap_s;
        let nthreads = if self.replay_case.is_some() { 1 } else { self.threads.max(1) };
        std::thread::scope(|sc| {
            for _ in 0..nthreads {
                sc.spawn(|| {
                    let mut local: Vec<(usize, Rec)> = Vec::new();
                    loop {
                        let k = next.fetch_add(1, Ordering::Relaxed);
                        if k >= sel.len() {
                            break;
                        }
                        if t0.elapsed().as_secs_f64() > cap {
                            break;
                        }
                        let i = sel[k];
                        let c = &cases[i];
                        let ck = key_of(c);
                        let mut rec = Rec::new(&ck);
                        let r = catch_unwind(AssertUnwindSafe(|| f(c, &mut rec)));
                        if let Err(e) = r {
                            let msg = if let Some(s) = e.downcast_ref::<&str>() {
                                s.to_string()
                            } else if let Some(s) = e.downcast_ref::<String>() {
                                s.clone()
                            } else {
                                "panic".to_string()
                            };
                            rec.evaluations += 1;
                            rec.violations.push(Violation { key: format!("{ck}|panic|"), case_key: ck.clone(), detail: format!("panic: {msg}") });
                        }
                        local.push((i, rec));
                    }
                    results.lock().unwrap().extend(local);
                });
            }
        });
        let mut res = results.into_inner().unwrap();
        res.sort_by_key(|r| r.0);
        self.cases_run += res.len();
        if res.len() < sel.len() {
            self.exhaustive = false;
        }
        for (_, r) in res {
            self.total.merge(r, 6);
        }
    }

    pub fn extra(&mut self, k: &str, v: Value) {
        self.extra.insert(k.to_string(), v);
    }
    pub fn assume(&mut self, s: &str) {
        self.assumptions.push(s.to_string());
    }
}

// ---------------------------------------------------------------------------------------
// known findings

pub struct Findings {
    /// (property, key pattern with '*' wildcards, description)
    pub items: Vec<(String, String, String)>,
}

pub fn glob_match(pat: &str, s: &str) -> bool {
    // '*' matches any (possibly empty) substring
    let parts: Vec<&str> = pat.split('*').collect();
    if parts.len() == 1 {
        return pat == s;
    }
    let mut pos = 0usize;
    for (i, p) in parts.iter().enumerate() {
        if i == 0 {
            if !s.starts_with(p) {
                return false;
            }
            pos = p.len();
        } else if i == parts.len() - 1 {
            return s.len() >= pos + p.len() && s[pos..].ends_with(p);
        } else {
            match s[pos..].find(p) {
                Some(k) => pos += k + p.len(),
                None => return false,
            }
        }
    }
    true
}

impl Findings {
    pub fn load(path: &str) -> Findings {
        let mut items = vec![];
        if let Ok(txt) = std::fs::read_to_string(path) {
            for line in txt.lines() {
                let line = line.trim();
                if !line.starts_with("finding:") {
                    continue;
                }
                // finding: property=C04 key=<pattern> :: description
                let rest = line["finding:".len()..].trim();
                let (head, desc) = match rest.split_once("::") {
                    Some((h, d)) => (h.trim(), d.trim().to_string()),
                    None => (rest, String::new()),
                };
                let mut prop = String::new();
                let mut key = String::new();
                if let Some(p) = head.strip_prefix("property=") {
                    if let Some((pp, kk)) = p.split_once(" key=") {
                        prop = pp.trim().to_string();
                        key = kk.trim().to_string();
                    }
                }
                if !prop.is_empty() && !key.is_empty() {
                    items.push((prop, key, desc));
                }
            }
        }
        Findings { items }
    }
    pub fn matches(&self, prop: &str, key: &str) -> Option<usize> {
        self.items.iter().position(|(p, pat, _)| p == prop && glob_match(pat, key))
    }
}

// ---------------------------------------------------------------------------------------
// finish: classify violations, write evidence + replays, print verdict, return exit code

fn sanitize(s: &str) -> String {
    let mut o: String = s.chars().map(|c| if c.is_ascii_alphanumeric() || c == '-' || c == '.' || c == '_' { c } else { '_' }).collect();
    if o.len() > 150 {
        let h = fnv(s);
        o.truncate(130);
        o.push_str(&format!("_{h:016x}"));
    }
    o
}
pub fn fnv(s: &str) -> u64 {
    let mut h: u64 = 0xcbf29ce484222325;
    for b in s.bytes() {
        h ^= b as u64;
        h = h.wrapping_mul(0x100000001b3);
    }
    h
}

pub fn finish(ctx: Ctx, verif_dir: &str) -> i32 {
    let findings = Findings::load(&format!("{verif_dir}/known_findings.txt"));
    let mut new_violations: Vec<&Violation> = vec![];
    let mut known_hit: BTreeMap<usize, (u64, String)> = BTreeMap::new();
    for v in &ctx.total.violations {
        match findings.matches(ctx.id, &v.key) {
            Some(i) => {
                let e = known_hit.entry(i).or_insert((0, v.key.clone()));
                e.0 += 1;
            }
            None => new_violations.push(v),
        }
    }
    let wall = ctx.start.elapsed().as_secs_f64();
    let replay_mode = ctx.replay_case.is_some();

    // machinery sanity: something must have been explored
    let machinery_fail = ctx.total.evaluations == 0 || ctx.cases_run == 0;

    let mut coverage = serde_json::Map::new();
    coverage.insert("evaluations".into(), json!(ctx.total.evaluations));
    coverage.insert("distinct_nontrivial".into(), json!(ctx.total.nontrivial.len()));
    coverage.insert("rule".into(), json!(ctx.rule));
    let mut samples = ctx.total.samples.clone();
    if samples.is_empty() {
        for k in ctx.total.nontrivial.iter().take(3) {
            samples.push(json!({ "case": k }));
        }
    }
    coverage.insert("samples".into(), Value::Array(samples));
    coverage.insert("exhaustive".into(), json!(ctx.exhaustive));
    coverage.insert("cases_enumerated".into(), json!(ctx.cases_total));
    coverage.insert("cases_run".into(), json!(ctx.cases_run));
    coverage.insert("skipped_conditional".into(), json!(ctx.total.skipped));
    coverage.insert("counters".into(), json!(ctx.total.counters));
    coverage.insert(
        "worst_margin".into(),
        json!(ctx.total.worst.iter().map(|(k, v)| (k.clone(), json!({"ratio_of_limit": v.0, "at": v.1}))).collect::<BTreeMap<_, _>>()),
    );
    coverage.insert(
        "known_findings_hit".into(),
        json!(known_hit.iter().map(|(i, (n, k))| json!({"pattern": findings.items[*i].1, "hits": n, "first_key": k})).collect::<Vec<_>>()),
    );
    for (k, v) in &ctx.extra {
        coverage.insert(k.clone(), v.clone());
    }
    let ev = json!({
        "property_id": ctx.id,
        "tier": ctx.label.name(),
        "seed": ctx.seed,
        "level": ctx.level,
        "coverage": Value::Object(coverage),
        "assumptions": ctx.assumptions,
        "wall_s": wall,
        "violations": new_violations.len(),
    });
    if !replay_mode {
        let _ = std::fs::create_dir_all(format!("{verif_dir}/evidence"));
        let path = format!("{verif_dir}/evidence/{}.json", ctx.id);
        std::fs::write(&path, serde_json::to_string_pretty(&ev).unwrap()).expect("write evidence");
    }

    println!(
        "[{}] tier={} cases={}/{} evaluations={} distinct_nontrivial={} skipped={} known_hits={} violations={} exhaustive={} wall={:.1}s",
        ctx.id,
        ctx.label.name(),
        ctx.cases_run,
        ctx.cases_total,
        ctx.total.evaluations,
        ctx.total.nontrivial.len(),
        ctx.total.skipped.values().sum::<u64>(),
        known_hit.values().map(|v| v.0).sum::<u64>(),
        new_violations.len(),
        ctx.exhaustive,
        wall
    );
    for (k, v) in &ctx.total.worst {
        println!("   worst[{k}] = {:.3e} of limit at {}", v.0, v.1);
    }
    for (k, v) in &ctx.total.skipped {
        println!("   skipped[{k}] = {v}");
    }
    for (k, v) in &ctx.total.counters {
        println!("   count[{k}] = {v}");
    }
    for (i, (n, k)) in &known_hit {
        println!("KNOWN-FINDING: property={} {} ({} hits, pattern {}, e.g. {})", ctx.id, findings.items[*i].2, n, findings.items[*i].1, k);
    }
    if let Some(m) = &ctx.machinery_error {
        println!("MACHINERY-ERROR: {m}");
        if new_violations.is_empty() {
            return 2;
        }
    }
    if machinery_fail && new_violations.is_empty() {
        println!("MACHINERY-ERROR: nothing was explored (cases_run={}, evaluations={})", ctx.cases_run, ctx.total.evaluations);
        return 2;
    }
    if new_violations.is_empty() {
        if replay_mode {
            println!("REPLAY: case holds");
        }
        return 0;
    }
    // write replays (at most 20 files; first is printed)
    let dir = format!("{verif_dir}/replays/{}", ctx.id);
    let _ = std::fs::create_dir_all(&dir);
    let mut first_path = String::new();
    if let Ok(path) = std::env::var("FVC_DUMP") {
        // development aid: all violation keys that are not listed as findings, one per line
        let all: Vec<String> = new_violations.iter().map(|v| v.key.clone()).collect();
        let _ = std::fs::write(path, all.join("\n"));
    }
    let show = std::env::var("FVC_SHOW").ok();
    let show_max: usize = std::env::var("FVC_SHOW_MAX").ok().and_then(|v| v.parse().ok()).unwrap_or(60);
    let mut shown = 0;
    for (n, v) in new_violations.iter().enumerate() {
        if let Some(f) = &show {
            if v.key.contains(f.as_str()) && shown < show_max {
                shown += 1;
                println!("  show {}: {} :: {}", n, v.key, v.detail);
            }
        }
        if n < 30 && show.is_none() {
            println!("  violation {}: {} :: {}", n, v.key, v.detail);
        }
        if n < 20 {
            let path = format!("{dir}/{}.json", sanitize(&v.key));
            let rp = json!({
                "property": ctx.id, "tier": ctx.label.name(), "case_key": v.case_key, "key": v.key, "detail": v.detail,
                "how_to_replay": format!("bin/check {} {} --replay {}", ctx.id, ctx.label.name(), path),
            });
            let _ = std::fs::write(&path, serde_json::to_string_pretty(&rp).unwrap());
            if first_path.is_empty() {
                first_path = path;
            }
        }
    }
    {
        // summary: violations grouped by (first component of the case key, oracle)
        let mut groups: BTreeMap<(String, String), usize> = BTreeMap::new();
        for v in &new_violations {
            let model = v.case_key.split('|').next().unwrap_or("").to_string();
            let rest = v.key.strip_prefix(&v.case_key).unwrap_or("").trim_start_matches('|');
            let oracle = rest.split('|').next().unwrap_or("").to_string();
            *groups.entry((model, oracle)).or_insert(0) += 1;
        }
        for ((m, o), n) in groups.iter().take(200) {
            println!("  group {m} :: {o} = {n}");
        }
    }
    if new_violations.len() > 30 {
        println!("  ... and {} more", new_violations.len() - 30);
    }
    println!("VIOLATION property={} replay={}", ctx.id, first_path);
    1
}

// ---------------------------------------------------------------------------------------
// numeric helpers

/// central Richardson difference: returns (value, truncation estimate)
pub fn rich(f: &dyn Fn(f64) -> f64, h: f64) -> (f64, f64) {
    let d1 = (f(h) - f(-h)) / (2.0 * h);
    let d2 = (f(2.0 * h) - f(-2.0 * h)) / (4.0 * h);
    ((4.0 * d1 - d2) / 3.0, (d1 - d2).abs())
}
pub fn rich_opt(f: &dyn Fn(f64) -> Option<f64>, h: f64) -> Option<(f64, f64)> {
    let d1 = (f(h)? - f(-h)?) / (2.0 * h);
    let d2 = (f(2.0 * h)? - f(-2.0 * h)?) / (4.0 * h);
    Some(((4.0 * d1 - d2) / 3.0, (d1 - d2).abs()))
}

pub fn fmt_f(x: f64) -> String {
    format!("{x:.6e}")
}
