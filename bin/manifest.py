#!/usr/bin/env python3
"""Generate /verif/MANIFEST.json from the table below (single source of truth) and validate it."""
import json, subprocess, sys

REPO_HOOK_COMMITS = subprocess.run(
    ["git", "-C", "/repo", "log", "--format=%H %s", "--grep=^verif hook"], capture_output=True, text=True
).stdout.strip().splitlines()

LATTICE_NOTE = ("Trusted base: the harness oracles (harness/src/props), the tolerance policy of DESIGN §3.3, rustc. "
                "Continuous coordinates (T, rho, x, parameter values) are covered on the stated fixed lattice only; "
                "the discrete part of the space (model, contribution, derivative key, component index, branch) is enumerated completely.")

# id -> dict(category, technique, text, note, design_ref)   (only properties with a working check)
CLAIMED = {
    "C02": dict(
        category="exploration",
        technique="bounded-exhaustive lattice enumeration of real State objects; exact-identity oracle",
        text="Every element of the product model zoo x composition x temperature x density x scale factor is constructed as a real State and all Euler / Gibbs-Duhem / symmetry / partial-molar identities and the lambda-independence of every intensive getter are evaluated on it; a slip in any contribution's extensivity or in the assembly of a derived property changes the result on essentially every lattice point that reaches it.",
        design_ref="§5 C02, §3.3",
    ),
}

CLAIMED["C11"] = dict(
    category="model_checking",
    engine="bfs+loom",
    technique="explicit-state BFS of the real State cache to closure + loom (DPOR) interleaving exploration of the real Mutex<Cache> + exhaustive (threads, chunksize, npoints) enumeration of par_pure",
    text="All reachable cache states of a State (any history length) are enumerated on the real object with the invariant 'every returned, cached and derived value equals the fresh-state value' checked in every state and every discovered state re-derived by replaying its trace on a fresh State; all interleavings of 2-3 threads issuing order-dependent request pairs (and clone) on one shared State are explored with loom on the library's own mutex, with a scheduling point inside every critical section (hook H5) so that a lock holder can be preempted and try_lock-style fast paths are reached; every par_pure configuration is compared with the sequential diagram and the stand-alone solves.",
    design_ref="§4.2, §4.4, §5 C11",
    note="Trusted base: loom's model of std::sync::Mutex; the BFS canonical key (sorted cache map incl. value bits; hit/miss counters are never read by getters). rayon's work-stealing schedule is not controllable: par_pure schedules are uncontrolled, only its configuration space is enumerated. Continuous state variables: a few fixed states per model.",
)

CLAIMED["C01"] = dict(
    category="exploration",
    technique="bounded-exhaustive lattice enumeration (model zoo x state lattice x every derivative key x every contribution); Richardson finite-difference oracle on neighbouring real states",
    text="For every lattice state of every zoo model, every first/second/third-order derivative key (mixed keys in both orders) of every Helmholtz-energy contribution is compared with a Richardson difference of the next-lower-order quantity at neighbouring states, every State getter with the documented sign/key mapping of the analytic total, and the caloric getters with differences between neighbouring constructed states (new_npt/new_nts/new_nph). A dropped dual part, wrong chain-rule factor or wrong key mapping produces an O(1) relative error on every state that reaches the code, five orders above the acceptance band. Every ePC-SAFT entry is also evaluated exactly at the first and last tabulated permittivity temperature; synthetic association schemes (2B + one C site, pure C site, 3B + 2B) are part of the zoo; caloric neighbours are only accepted on the branch of the base state.",
    design_ref="§5 C01, §3.3",
)

CLAIMED["C08"] = dict(
    category="exploration",
    technique="bounded-exhaustive lattice enumeration of every implementation pair x state lattice x derivative keys; differential oracle",
    text="Every pair of code paths named in the property (functional-as-bulk vs equation of state for every FMT version, enum/ideal-gas wrappers vs bare model, ePC-SAFT without ions vs PC-SAFT, SAFT-VRQ Mie FH0 vs SAFT-VR Mie, closed-form vs iterative association on every dual part, from_segments vs combined record, Peng-Robinson vs the SI closed form) is evaluated on the whole state lattice for A, p, s, mu and all second-order keys and compared pairwise. Added pairs: six synthetic association schemes with unequal site counts or C sites (pure and with hexane), gc-PC-SAFT with the rehner2023 binary segment records; one C site = half of one A + one B site for PC-SAFT and SAFT-VR Mie. Record sweep: every pure record of nine shipped PC-SAFT files (gross2001/2002/2005/2006, loetgeringlin2018, eller2022, rehner2020, esper2023) and a synthetic feature lattice (m in {1,1.6,2,2.6,4.5} x dipole x quadrupole x association x three FMT versions) is compared functional-vs-equation-of-state on a small state lattice.",
    design_ref="§5 C08",
)

CLAIMED["C09"] = dict(
    category="exploration",
    technique="exhaustive enumeration of permutations, paddings, splits and ordered subsets per model family; differential oracle against the original / directly built model",
    text="For every model family all n! relabellings, every zero-mole padding position, every split and every ordered subset of component indices (with default and non-default option structs) are built as real models and compared with the original on several states, including the pure-component helper algorithms that work through Components::subset. Families with a spherical + chain SAFT-VR Mie mixture, SAFT-VRQ Mie components of different Feynman-Hibbs orders and an ePC-SAFT solvent whose permittivity table is given unsorted are included. Henry's law constants are compared under every permutation of systems with one or two solutes among two or three solvents.",
    design_ref="§5 C09",
)

CLAIMED["C10"] = dict(
    category="exploration",
    technique="bounded-exhaustive lattice enumeration (every contribution-selector getter x models x T x density ladder; every shipped ideal-gas record); sum-rule and re-implemented closed-form oracles",
    text="Every getter that accepts a contribution selector is evaluated for IdealGas, Residual and Total on the whole lattice (sum rule, cancellation-aware scale), the ideal pressure is compared with rho R T in SI, residual properties are followed down the density ladder to 1e-12 eta_max, and the heat capacity obtained by differentiating the Helmholtz energy is compared with the DIPPR 100/107/127 and Joback correlations re-implemented in the harness for every shipped record plus synthetic 107/127 records, for mixtures and for ideal mixing. Third-order ideal-gas getters (dc_v_dt, d2s_dt2) are compared with differences of the second-order ones; every single-component and ordered two-component Components::subset of a DIPPR and of a Joback mixture equals the ideal gas built from those records.",
    design_ref="§5 C10",
)

CLAIMED["C13"] = dict(
    category="exploration",
    technique="bounded-exhaustive lattice enumeration (non-electrolyte zoo x T x composition x {B, C, B', C'}); oracle: extrapolated zero-density limit of (Z-1)/rho from real finite-density states",
    text="For every non-electrolyte zoo model, temperature and composition of the lattice all four virial quantities are compared with the zero-density limit of (Z-1)/rho and of its density derivative, obtained by quadratic extrapolation from real states on a density ladder that is lowered until the extrapolation converges, and with Richardson temperature differences of the coefficients themselves. Models whose coefficients are wrong or NaN on the pinned tree are listed per (model, coefficient) in known_findings.txt, so a further model going wrong is reported. All four coefficients are also required to be independent of the amount of substance handed in (1 mol, 2.5 mol, 1e-3 mol, None).",
    design_ref="§5 C13",
)

CLAIMED["C15"] = dict(
    category="exploration",
    technique="exhaustive enumeration of a finite set: every record of every shipped parameter file",
    text="The quantifier is a finite set and both tiers enumerate it completely: every JSON file is parsed with its model's record type and checked structurally (duplicate names / pairs, positivity, referential integrity, bond indices), every pure PC-SAFT, SAFT-VR Mie and SAFT-VRQ Mie record (2180 records) is turned into a model whose critical point and saturation curve (8 reduced temperatures) are computed, and every gc substance is assembled from the segment tables. The harness fails as machinery error if a parameter file exists on disk for which it has no record type. Every substance of gc_substances.json must assemble from every segment table exactly when the raw JSON says it can.",
    design_ref="§5 C15",
    note="Trusted base: serde record definitions are the schema; 'lookup identifier' = substance name (all documented lookups use IdentifierOption::Name; several files deliberately hold several parameterisations of one CAS number). Saturation curve sampled at the 8 reduced temperatures the property was calibrated on.",
)

CLAIMED["C14"] = dict(
    category="exploration",
    technique="exhaustive enumeration of ordered query subsets x identifier kinds x file orders x binary orientations; all segment orders of chemical records; reference re-implementation and differential oracles",
    text="For the small parameter files every ordered query subset up to size 3-4, every identifier kind the records carry, three file orders and four variants of the binary file (original, every record's identifiers swapped, reversed, absent) are pushed through from_json / from_multiple_json and compared with the raw records; duplicates and missing names must be rejected; every gc substance is compared with a reference implementation of the combining rules and rebuilt in every order of its segment list (bonds relabelled) for homo- and heterosegmented models; every record of every pure file is serialised, re-read and compared bit-for-bit in behaviour. Group-contribution assembly must succeed exactly when the raw JSON says it can (all groups present, at most one polar/associating group); both heterosegmented builders keep the query order. Every chemical record survives a serde round trip (groups, bond graph, heterosegmented model built from it).",
    design_ref="§5 C14",
)

CLAIMED["C04"] = dict(
    category="fault_enumeration",
    engine="deviation",
    technique="exhaustive enumeration of every shipped pure record x reduced-temperature lattice, plus deviation-bounded exploration of the initialisation cascade through injected stage failures",
    text="Every pure record of the shipped PC-SAFT, SAFT-VR Mie and SAFT-VRQ Mie files is solved on the reduced-temperature lattice (success clause), the equilibrium conditions are recomputed outside the solver, pure(T) and pure(p) are composed, the helper entry points are compared, and with an initial state supplied every prefix of the fallback cascade (given state, ideal gas) is forced to fail through the H3 injection sites so that the later stages really run; phase diagrams are checked for completeness, monotonicity and the critical end point. Solver failures on the pinned tree are listed per (record, T_r window) in known_findings.txt. pure(p) must succeed at every p = p_sat(T) returned by pure(T) (the 259 failures of the pinned tree are listed findings).",
    design_ref="§5 C04, §4.3",
)

CLAIMED["C03"] = dict(
    category="fault_enumeration",
    engine="deviation",
    technique="exhaustive enumeration of all constructor input subsets x poisoned values against a reference decision table; (T, p, hint, initial density) lattice; injected failures of the two shadowed density iterations",
    text="All 2^8 / 2^11 subsets of the optional constructor inputs for one and two components, each with every poisoned value in every present input, are compared with a decision table written from the documented hierarchy (outcome class, echo of every given quantity, iterative targets); the Gross-Sadowski records are swept over the (T_r, p_r) lattice with every density initialisation (success clause, pressure reproduced, stable root by Gibbs energy, requested branch when an independent root scan shows both exist), the two density iterations of the no-hint path are forced to fail in all combinations, and the Newton constructors are asked for the specification of reachable states. The (T, p) lattice has an extra band of reduced temperatures just below T_c (positive liquid spinodal pressure). (T, p, V, x) constructions with mole fractions that are not normalised (scaled by 0.5, 2, 10) through new_npvx and the StateBuilder reproduce p, T, V and x / sum(x).",
    design_ref="§5 C03, §4.3",
)

CLAIMED["C05"] = dict(
    category="exploration",
    technique="bounded-exhaustive enumeration of all hydrocarbon record pairs x (T, x, pressure fraction) lattice x {bubble, dew at T and p, flash, diagrams}; equilibrium conditions recomputed outside the solvers",
    text="All unordered pairs of the 51 shipped PC-SAFT hydrocarbon records with T_c ratio < 1.8 are solved on the (T, x) lattice for bubble and dew points at given T and p and for flashes strictly inside the envelope (success clause for ratio < 1.5), plus binary_vle / bubble- and dew-point lines, other model families, a ternary, LLE and the heteroazeotrope; for every returned result common T and p, equality of x_i phi_i, distinctness of the phases, exact echo of the specification, p_bub >= p_dew and the material balance are recomputed. Flash failures on the pinned tree are listed per (pair, T, x, pressure fraction). Every interior flash is also warm-started from that equilibrium at four neighbouring (T, p) through both entry points; bubble and dew points are re-solved with four non-default (inner, outer) option pairs and compared with the default answer; the isobaric LLE diagram must lie on its temperature grid. The pressure-specified heteroazeotrope is solved from exact, perturbed and flash compositions (common T, specified p, isofugacity, temperature of the temperature-specified point reproduced). Liquid-liquid saturation points of water + hexane at 100 bar are computed through bubble_point and dew_point from both sides (incipient phase denser / less dense than the specified phase) and must echo the specified composition in the specified phase.",
    design_ref="§5 C05",
)

CLAIMED["C06"] = dict(
    category="exploration",
    technique="bounded-exhaustive enumeration of all pure records, a Peng-Robinson parameter lattice and all hydrocarbon pairs x compositions; criticality and spinodal conditions recomputed outside the solver",
    text="For every pure record the critical point from the default start, from six initial temperatures and the physical one are checked for vanishing scaled dp/dV and d2p/dV2 at positive pressure, spinodals on a T_r lattice for dp/dV = 0, bracketing of the critical density and position inside the binodal; on a 6x6x6 Peng-Robinson lattice the critical point must coincide with the parameters; for all hydrocarbon pairs the smallest eigenvalue of the scaled composition Hessian and the third directional derivative along its eigenvector are recomputed from State getters (own eigen-solver, Richardson difference), binary critical points at given T / p must echo the specification, mixture spinodals and PhaseDiagram::spinodal must have a vanishing eigenvalue.",
    design_ref="§5 C06",
)

CLAIMED["C07"] = dict(
    category="exploration",
    technique="bounded-exhaustive enumeration of all hydrocarbon pairs x (T, x) lattice x pressures on both sides of and inside the envelope, pure-fluid density grids; tangent plane distance recomputed from fugacity coefficients",
    text="For every pair of the C05 success domain states 2 % outside the envelope and every phase delivered by converged bubble, dew and flash calculations must be reported stable, feeds inside the envelope unstable and leading tp_flash to a split; every trial phase returned anywhere has its tangent plane distance recomputed from ln_phi and must be negative and share T, p with the analysed state; pure states on a 24-point density grid across the binodal are classified with the saturated densities. Converged phases that are reported unstable at noise level on the pinned tree are listed per input.",
    design_ref="§5 C07",
)

CLAIMED["C12"] = dict(
    category="fault_enumeration",
    engine="deviation",
    technique="deviation-bounded exploration: every non-empty subset of a phase diagram's solver calls forced to fail through injection hooks (2^(n-1)-1 histories per diagram), plus an exhaustive guess lattice; differential oracle against the stand-alone solve",
    text="Pure diagrams (4, 6, 9 points) and binary_vle / bubble- / dew-point lines (5-8 points) are re-run with every non-empty subset of their solver calls forced to fail by the H3 hooks: exactly the forced points must go missing and every surviving point must equal the undisturbed point, which in turn must equal the stand-alone solve without guess; nested numbers of points must share points; pure, bubble/dew and flash calculations are repeated over a lattice of pressure / temperature / composition guesses within a factor 3 and with cascade stages forced to fail, and compared with the result obtained without guess. Pure-component guesses include states AT the requested temperature that are not the solution (two phases at 0.8/0.95/1.05 p_sat, coarse-tolerance solutions). Mixture guesses are also enumerated at 0.97 and 0.99 of the lower critical temperature (guesses next to the solution only, since two dew points exist there). Pure-component warm starts also come from states 2 and 4 times closer to T_c than the requested temperature (phase order checked). bubble_point_line and dew_point_line are also run with caller-supplied (inner, outer) solver options that differ from each other (loose inner loop; different iteration limits), every point compared with the stand-alone solve using the same options.",
    design_ref="§5 C12, §4.3",
)

CLAIMED["C16"] = dict(
    category="exploration",
    technique="bounded-exhaustive enumeration of functionals x all eight grid types x sizes x lengths x Lanczos settings x bulk states with a uniform profile; oracle = bulk model",
    text="A uniform density profile with zero external potential is built on every grid type and size of the lattice for every functional family and compared with the bulk model: weighted densities against the k = 0 weight constants, the Euler-Lagrange residual, the grand potential density against -p pointwise, the mole numbers against rho times the integral of one, volume() against the integral of one with the grid's own weights, and the excess grand potential against zero.",
    design_ref="§5 C16",
)

CLAIMED["C17"] = dict(
    category="exploration",
    technique="bounded-exhaustive enumeration of functionals x grids x base profiles x every basis perturbation (segment x bump centre); finite-difference and adjointness oracles on the discretised functional",
    text="For every functional family, grid type, base profile and every perturbation of the basis (each segment x each Gaussian bump centre of a sub-grid away from the boundary) the Richardson difference of the integrated Helmholtz energy density is compared with the integral of the functional derivative times the perturbation, the adjointness of the weighted-density and functional-derivative convolutions is evaluated without any finite difference through first_partial_derivatives, and the Newton operator (hook H4) applied to the perturbation, including the variation of the bond integrals of chain molecules, is compared with the Richardson difference of the functional derivative itself. Cartesian and periodic grids: 1e-9; curvilinear grids: bands at 10x the intrinsic accuracy of the transforms observed on the pinned tree. Periodic 2-D and 3-D grids (with a periodic slab profile) are part of the lattice. Heterosegmented molecules include branched bond graphs (isobutane, neopentane, 2,3-dimethylbutane) besides linear chains.",
    design_ref="§5 C17",
    note="Trusted base as for the lattice checks. Curvilinear grids (spherical, polar, cylindrical) are only adjoint up to the intrinsic accuracy of their transforms (spherical 4e-7..1e-4, polar up to 1.5e-3), which does not vanish under refinement; the acceptance band there (2e-5..1.2e-3 and 2e-2) is calibrated on the pinned tree and only catches O(1) errors such as a wrong sign, index or partial derivative. Only profiles that are flat at the outer boundary are used on those grids.",
)

CLAIMED["C18"] = dict(
    category="exploration",
    technique="exhaustive enumeration of all solver chains up to depth 3 over a 6-letter alphabet x tolerances x initial profiles x specifications x systems; stationarity recomputed, observables compared across all chains",
    text="Every sequence of up to three solver stages over {picard, picard-log, anderson, anderson-log, newton, newton-log} (6 + 36 + 216 chains) is run with two final tolerances on planar interfaces and slit / cylindrical / spherical pores from tanh, pDGT and previous-solution starts; whenever solve reports success the Euler-Lagrange residual is recomputed, positivity and the solver log are checked, the bulk state must be unchanged for the default specification, the path-independent observables (surface tension, adsorbed amount, grand potential) must agree across all successful chains, and specified particle numbers must be reproduced. 18 two-stage chains whose tight last stage is cut off after 3 iterations are enumerated in both tiers; Moles and TotalMoles specifications at N0 and 1.1 N0 are solved for a binary mixture and a heterosegmented molecule in a slit pore. A Moles specification with changed component ratio is solved and the profile re-solved at the returned bulk state with the default specification must not move.",
    design_ref="§5 C18",
)

CLAIMED["C19"] = dict(
    category="exploration",
    technique="bounded-exhaustive enumeration of functionals x pore geometries x sizes x solid potentials x temperatures x pressures x compositions x grids; every reported derivative is compared with Richardson differences of re-solved neighbouring profiles along every bulk direction (p, x, T)",
    text="For every pore of the lattice (5 functionals incl. a binary mixture at two compositions x slit/cylinder/sphere x 3 sizes x LJ93/Steele/hard wall/SimpleLJ93 x 3 reduced temperatures x 2 vapour pressures x 2 grids) the profile is re-solved at p +- h, +- 2h, x +- h, +- 2h and T +- dT, +- 2dT and the Richardson differences are compared with what the solved profile reports: dOmega = -sum_i N_i dmu_i along every direction (Gibbs adsorption), dN_i = sum_k dn_dmu[k,i] dmu_k, dn_dp, dn_dt, the linear system and mole-fraction average behind the (partial molar) enthalpy of adsorption, N_i/(x_i p) at 1e-4 p against the Henry coefficients and the temperature derivative of ln(K_H T) against the ideal-gas enthalpy of adsorption. Planar interfaces: 5 functionals x 6 reduced temperatures x 4 box lengths x 3 grid sizes: surface tension independent of box and grid up to a second-order discretisation band, strictly decreasing with T, below 20 % of its 0.95 Tc value at 0.99 Tc, pDGT within 10 %. The quick tier contains a heterosegmented functional (gc-PC-SAFT hexane) in all three geometries. Adsorption and desorption isotherm drivers on nested 3/5/9-point pressure grids: every point equals the stand-alone pore calculation, shared pressures of different grids agree, adsorption = desorption above T_c, N increases and Omega decreases with pressure.",
    design_ref="§5 C19",
)

CLAIMED["C20"] = dict(
    category="exploration",
    technique="bounded-exhaustive enumeration of every shipped record with entropy-scaling coefficients x state lattice, and of every data-set type x configuration x loss x scaling factor x weight vector x residual lattice; oracles = closed forms re-implemented in the harness and the wrapped library calls",
    text="Transport: for all 146 PC-SAFT records with viscosity coefficients (plus synthetic diffusion and thermal-conductivity coefficients, a dipolar-quadrupolar probe, default and non-default model options) and all SAFT-VRQ Mie records x 5 temperatures x 5 densities: value = reference x exp(correlation), correlation = closed form of the state's own s_res/m, references = Chapman-Enskog closed forms in SI units, positive and finite, a second state with the same s_res at 1.25 T gives the same reduced value, a binary with x2 in {1e-3, 1e-6, 1e-9} converges linearly to the pure viscosity, diffusion / thermal conductivity of mixtures are errors. Estimator: all 5 losses x 7 scaling factors x 53 residuals (both signs, around the Huber switch, 1e-8..1e6) against the cancellation-free closed form; every data-set type x configuration (vapor pressure x extrapolation x given Tc incl. supercritical temperatures, liquid and equilibrium liquid density incl. failing states, viscosity / thermal conductivity / diffusion with and without phases, binary bubble / dew pressure, chemical potential, phase-diagram distance from the model's own diagram at vertices and midpoints) x 4 pure and 3 binary models: predict = library call in the data set's unit, model-generated targets give zero relative difference, cost (9 losses) and MARD, perturbed targets reproduce the definitions; Estimator: 4 weight vectors x 9 loss assignments: cost = normalised weights x data-set cost, invariant under weight scaling, add_data = new, predict / relative difference / MARD equal the per-data-set values.",
    design_ref="§5 C20",
)

NOT_YET = "check not built yet (work in progress; see DESIGN.md §9 build order) - not a claim that the technique cannot apply"

ALL = ["C%02d" % i for i in range(1, 21)]


def main():
    checks = []
    for pid in ALL:
        if pid not in CLAIMED:
            continue
        c = CLAIMED[pid]
        checks.append({
            "property_id": pid,
            "quick_cmd": f"bin/check {pid} quick",
            "thorough_cmd": f"bin/check {pid} thorough",
            "evidence_file": f"/verif/evidence/{pid}.json",
            "replay_cmd_template": f"bin/check {pid} quick --replay {{path}}",
            "engine": c.get("engine", "lattice"),
            "level_claimed": {"category": c["category"], "text": c["text"], "design_ref": c["design_ref"]},
            "level_note": c.get("note", LATTICE_NOTE),
            "technique": c["technique"],
        })
    m = {
        "version": 1,
        "setup_cmd": "bin/setup",
        "hooks": {
            "guard": "--cfg feos_verif (and --cfg feos_verif_loom for the loom build of feos-core)",
            "enable": "RUSTFLAGS via harness/.cargo/config.toml: [build] rustflags = [\"--cfg\", \"feos_verif\"]; loomharness/.cargo/config.toml adds --cfg feos_verif_loom",
            "baseline_off_cmd": "cd /repo && cargo test --workspace --no-fail-fast --offline",
            "source_commits": [l.split()[0] for l in REPO_HOOK_COMMITS],
            "add_only": True,
        },
        "engines": [
            {"name": "lattice", "path": "harness/src/engine.rs", "serves_properties": [p for p in ALL if p in CLAIMED and CLAIMED[p].get("engine", "lattice") == "lattice"],
             "kind_free_text": "bounded-exhaustive product enumeration over real feos objects, all cores, deterministic order"},
            {"name": "bfs+loom", "path": "harness/src/props/c11.rs, loomharness/", "serves_properties": [p for p in ALL if p in CLAIMED and CLAIMED[p].get("engine") == "bfs+loom"],
             "kind_free_text": "explicit-state BFS over the real State cache to closure + loom exploration of thread interleavings on the real Mutex<Cache>"},
            {"name": "deviation", "path": "harness/src/props/dev.rs", "serves_properties": [p for p in ALL if p in CLAIMED and CLAIMED[p].get("engine") == "deviation"],
             "kind_free_text": "deviation-bounded exploration of solver fallback cascades through injected stage failures"},
        ],
        "checks": checks,
        "not_applicable": [{"property_id": p, "reason": NOT_YET} for p in ALL if p not in CLAIMED],
        "notes": "All checks share one harness binary (harness/, crate fvc) rebuilt from /repo's working tree on every invocation. known_findings.txt lists recorded defects; evidence/<id>.json is rewritten on every run.",
    }
    json.dump(m, open("/verif/MANIFEST.json", "w"), indent=1)
    try:
        import jsonschema
        jsonschema.validate(m, json.load(open("/root/.vp/MANIFEST.schema.json")))
        print("MANIFEST.json valid;", len(checks), "checks,", len(m["not_applicable"]), "not_applicable")
    except ImportError:
        print("MANIFEST.json written (jsonschema not available for validation)")


if __name__ == "__main__":
    main()
