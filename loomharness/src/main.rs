//! fvc-loom <spec.json>
//!
//! spec: { "model": "pr2" | "pcsaft_cross2", "t": f64, "v": f64, "n": [f64], (reduced units)
//!         "threads": [ [ [kind, a, b], ... ], ... ]   one op list per thread; a thread whose list starts
//!                                                     with kind 9 first clones the shared state and works on the clone,
//!         "preemption_bound": null | usize, "max_branches": usize }
//! Every op is one atomic cache request on the *real* `State` (hook H1), whose `Mutex<Cache>` is
//! `loom::sync::Mutex` in this build (hook H2): every lock/unlock the library performs is a
//! scheduling point. Prints one JSON object.
use feos::pcsaft::{PcSaft, PcSaftParameters};
use feos_core::cubic::{PengRobinson, PengRobinsonParameters};
use feos_core::parameter::{IdentifierOption, Parameter};
use feos_core::{Derivative, ReferenceSystem, Residual, State};
use ndarray::Array1;
use quantity::*;
use serde_json::{json, Value};
use std::collections::{BTreeMap, BTreeSet};
use std::sync::atomic::{AtomicUsize, Ordering};
use std::sync::{Arc, Mutex as StdMutex};

#[derive(Clone, Copy, Debug)]
struct Op(u8, Derivative, Derivative);

fn dv(i: i64) -> Derivative {
    match i {
        -2 => Derivative::DV,
        -1 => Derivative::DT,
        k => Derivative::DN(k as usize),
    }
}

fn close(a: f64, b: f64, floor: f64) -> bool {
    (a - b).abs() <= 1e-9 * a.abs().max(b.abs()) + floor
}

/// ideal-gas magnitude of a cache entry (reduced units), used as absolute floor
fn floor_of(key: &str, t: f64, v: f64, n: f64) -> f64 {
    let mut s = n * t;
    let vars = key.split(':').nth(1).unwrap_or("");
    let order = match key.split(':').next().unwrap_or("0") {
        "1" => 1,
        "2" | "2m" => 2,
        "3" => 3,
        _ => 0,
    };
    let list: Vec<&str> = vars.split(',').filter(|s| !s.is_empty()).collect();
    let mut apply = |w: &str| {
        if w == "V" {
            s /= v
        } else if w == "T" {
            s /= t
        } else {
            s /= n
        }
    };
    if list.len() == 2 {
        apply(list[0]);
        apply(list[1]);
    } else if list.len() == 1 {
        for _ in 0..order {
            apply(list[0]);
        }
    }
    1e-12 * s.abs()
}

fn explore<E: Residual + Send + Sync + 'static>(eos: Arc<E>, spec: &Value) -> Value {
    let t = spec["t"].as_f64().unwrap();
    let v = spec["v"].as_f64().unwrap();
    let n: Vec<f64> = spec["n"].as_array().unwrap().iter().map(|x| x.as_f64().unwrap()).collect();
    let ntot: f64 = n.iter().sum();
    let threads: Vec<Vec<Op>> = spec["threads"]
        .as_array()
        .unwrap()
        .iter()
        .map(|th| th.as_array().unwrap().iter().map(|o| Op(o[0].as_u64().unwrap() as u8, dv(o[1].as_i64().unwrap()), dv(o[2].as_i64().unwrap()))).collect())
        .collect();
    let mk = {
        let eos = eos.clone();
        let n = n.clone();
        move || State::new_nvt(&eos, Temperature::from_reduced(t), Volume::from_reduced(v), &Moles::from_reduced(Array1::from_vec(n.clone()))).unwrap()
    };
    // sequential references: value of each op on a fresh state, and reference value per cache key
    let refs: Arc<StdMutex<(BTreeMap<String, f64>, BTreeMap<String, f64>)>> = Arc::new(StdMutex::new((BTreeMap::new(), BTreeMap::new())));
    {
        let refs = refs.clone();
        let threads = threads.clone();
        let mk = mk.clone();
        loom::model(move || {
            let mut r = refs.lock().unwrap();
            for th in &threads {
                for op in th {
                    if op.0 == 9 {
                        continue;
                    }
                    let s = mk();
                    let val = s.verif_partial_derivative(op.0, op.1, op.2);
                    r.0.insert(format!("{op:?}"), val);
                    // the directly requested key is the last one written by that op: take all, direct wins below
                    for (k, b) in s.verif_cache_snapshot() {
                        r.1.entry(k).or_insert(f64::from_bits(b));
                    }
                }
            }
        });
    }
    let (ref_ops, ref_keys) = refs.lock().unwrap().clone();

    static EXECS: AtomicUsize = AtomicUsize::new(0);
    EXECS.store(0, Ordering::Relaxed);
    let finals: Arc<StdMutex<BTreeSet<Vec<(String, u64)>>>> = Arc::new(StdMutex::new(BTreeSet::new()));
    let rets: Arc<StdMutex<BTreeSet<Vec<u64>>>> = Arc::new(StdMutex::new(BTreeSet::new()));
    let violations: Arc<StdMutex<Vec<String>>> = Arc::new(StdMutex::new(vec![]));
    let mut b = loom::model::Builder::new();
    b.preemption_bound = spec["preemption_bound"].as_u64().map(|x| x as usize);
    if let Some(mb) = spec["max_branches"].as_u64() {
        b.max_branches = mb as usize;
    }
    let (fc, rc, vc) = (finals.clone(), rets.clone(), violations.clone());
    let threads2 = threads.clone();
    let result = std::panic::catch_unwind(std::panic::AssertUnwindSafe(move || {
        b.check(move || {
            EXECS.fetch_add(1, Ordering::Relaxed);
            let shared = loom::sync::Arc::new(mk());
            let mut hs = vec![];
            for th in threads2.iter().cloned() {
                let sk = shared.clone();
                hs.push(loom::thread::spawn(move || {
                    let mut out: Vec<(String, f64)> = vec![];
                    let mut own: Option<State<E>> = None;
                    for op in th {
                        if op.0 == 9 {
                            own = Some((*sk).clone());
                            continue;
                        }
                        let val = match &own {
                            Some(c) => c.verif_partial_derivative(op.0, op.1, op.2),
                            None => sk.verif_partial_derivative(op.0, op.1, op.2),
                        };
                        out.push((format!("{op:?}"), val));
                    }
                    // a clone taken mid-flight must itself be a consistent cache
                    let snap = own.map(|c| c.verif_cache_snapshot());
                    (out, snap)
                }));
            }
            let mut all: Vec<u64> = vec![];
            let mut bad: Vec<String> = vec![];
            for h in hs {
                let (out, snap) = h.join().unwrap();
                for (k, val) in out {
                    all.push(val.to_bits());
                    let r = ref_ops[&k];
                    if !close(val, r, 0.0) {
                        bad.push(format!("returned {k} = {val:e}, sequential reference {r:e}"));
                    }
                }
                if let Some(snap) = snap {
                    for (k, bits) in snap {
                        let val = f64::from_bits(bits);
                        if let Some(r) = ref_keys.get(&k) {
                            if !close(val, *r, floor_of(&k, t, v, ntot)) {
                                bad.push(format!("clone cache[{k}] = {val:e}, reference {r:e}"));
                            }
                        }
                    }
                }
            }
            let snap = shared.verif_cache_snapshot();
            for (k, bits) in &snap {
                let val = f64::from_bits(*bits);
                match ref_keys.get(k) {
                    Some(r) => {
                        if !close(val, *r, floor_of(k, t, v, ntot)) {
                            bad.push(format!("final cache[{k}] = {val:e}, reference {r:e}"));
                        }
                    }
                    None => bad.push(format!("final cache has unexpected key {k}")),
                }
            }
            rc.lock().unwrap().insert(all);
            fc.lock().unwrap().insert(snap);
            if !bad.is_empty() {
                {
                    let mut v = vc.lock().unwrap_or_else(|e| e.into_inner());
                    if v.len() < 5 {
                        v.extend(bad.clone());
                    }
                }
                panic!("C11 oracle: {}", bad.join("; "));
            }
        });
    }));
    let mut viol = violations.lock().unwrap_or_else(|e| e.into_inner()).clone();
    if let Err(e) = result {
        let msg = e.downcast_ref::<String>().cloned().or_else(|| e.downcast_ref::<&str>().map(|s| s.to_string())).unwrap_or_else(|| "panic".into());
        if viol.is_empty() {
            viol.push(format!("loom: {msg}"));
        }
    }
    json!({
        "executions": EXECS.load(Ordering::Relaxed),
        "distinct_final_caches": finals.lock().unwrap_or_else(|e| e.into_inner()).len(),
        "distinct_return_vectors": rets.lock().unwrap_or_else(|e| e.into_inner()).len(),
        "violations": viol,
        "threads": threads.iter().map(|t| t.iter().map(|o| format!("{o:?}")).collect::<Vec<_>>()).collect::<Vec<_>>(),
        "preemption_bound": spec["preemption_bound"].clone(),
    })
}

fn main() {
    let path = std::env::args().nth(1).expect("spec file");
    let spec: Value = serde_json::from_str(&std::fs::read_to_string(&path).expect("read spec")).expect("parse spec");
    if std::env::var("FVC_PANIC").is_err() { std::panic::set_hook(Box::new(|_| {})); }
    let mut results = vec![];
    // one body per process: a failed loom execution leaves loom's scheduler state unusable
    let only: Option<usize> = std::env::args().nth(2).and_then(|s| s.parse().ok());
    for (idx, s) in spec.as_array().expect("array of specs").iter().enumerate() {
        if let Some(o) = only {
            if o != idx {
                continue;
            }
        }
        let r = match s["model"].as_str().unwrap() {
            "pr2" => {
                let eos = Arc::new(PengRobinson::new(Arc::new(PengRobinsonParameters::new_simple(&[369.8, 425.2], &[41.9e5, 38.0e5], &[0.153, 0.199], &[44.1, 58.1]).unwrap())));
                explore(eos, s)
            }
            "pcsaft_cross2" => {
                let p = PcSaftParameters::from_json(vec!["methanol", "water"], "/repo/parameters/pcsaft/gross2002.json", None, IdentifierOption::Name).unwrap();
                explore(Arc::new(PcSaft::new(Arc::new(p))), s)
            }
            m => panic!("unknown model {m}"),
        };
        results.push(r);
    }
    println!("{}", serde_json::to_string(&results).unwrap());
}
